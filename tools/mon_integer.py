"""C19 monitor: an independent oracle (Python integers) for every line of an `integer` trace.
Each line is `I <op> <args> => ok <result> | err`."""

M = 1 << 128


def toZ(v, n):
    v = int(v)
    return -v if n == "1" else v


def quot(a, b):
    q = abs(a) // abs(b)
    return q if (a < 0) == (b < 0) else -q


def unhex(h):
    return "" if h == "-" else bytes.fromhex(h).decode("utf-8", "replace")


BIN = {
    "add": lambda a, b: a + b, "sub": lambda a, b: a - b, "mul": lambda a, b: a * b,
    "cadd": lambda a, b: a + b, "csub": lambda a, b: a - b, "cmul": lambda a, b: a * b,
    "adda": lambda a, b: a + b, "suba": lambda a, b: a - b, "mula": lambda a, b: a * b,
}
DIVS = ("div", "cdiv", "diva")
CMP = {
    "eq": lambda a, b: a == b, "lt": lambda a, b: a < b, "gt": lambda a, b: a > b,
    "le": lambda a, b: a <= b, "ge": lambda a, b: a >= b,
    "cmplt": lambda a, b: a < b, "cmpeq": lambda a, b: a == b,
}


def classify(args, res):
    """negzero: some operand or the result is the encoding {0, negative:true}"""
    toks = list(args) + list(res)
    for i in range(len(toks) - 1):
        if toks[i] == "0" and toks[i + 1] == "1":
            return "negzero"
    return "other"


def check_line(line):
    """returns None if fine, else (class, description)"""
    toks = line.split()
    if len(toks) < 3 or toks[0] != "I":
        return None
    k = toks.index("=>")
    op, args, res = toks[1], toks[2:k], toks[k + 1:]
    ok = res[0] == "ok"

    def bad(msg):
        return (classify(args, res[1:]) if op != "fromstr" else ("negzero" if res[1:] == ["0", "1"] else "other"), f"{op}: {msg}: {line}")

    if op in BIN or op in DIVS:
        a, b = toZ(args[0], args[1]), toZ(args[2], args[3])
        if op in DIVS:
            if b == 0:
                return None if not ok else bad("division by zero must fail")
            exact = quot(a, b)
        else:
            exact = BIN[op](a, b)
        if abs(exact) >= M:
            return None if not ok else bad("overflow must fail")
        if not ok:
            return bad(f"must succeed with {exact}")
        if toZ(res[1], res[2]) != exact:
            return bad(f"expected {exact}")
        return None
    if op.startswith("agree_"):
        # line is `err` when the checked form fails; otherwise the two results must be ==
        if ok and res[1] != "1":
            a, b = toZ(args[0], args[1]), toZ(args[2], args[3])
            o = op[6:]
            exact = (quot(a, b) if b != 0 else None) if o == "div" else BIN[o](a, b)
            cls = "negzero" if exact == 0 else classify(args, [])
            return (cls, f"{op}: checked and unchecked results are not ==: {line}")
        if not ok:
            a, b = toZ(args[0], args[1]), toZ(args[2], args[3])
            o = op[6:]
            if o == "div":
                fits = b != 0
            else:
                fits = abs(BIN[o](a, b)) < M
            if fits:
                return bad("checked form succeeded mathematically but the pair failed")
        return None
    if op in CMP:
        a, b = toZ(args[0], args[1]), toZ(args[2], args[3])
        exp = CMP[op](a, b)
        if not ok or (res[1] == "1") != exp:
            return bad(f"expected {int(exp)}")
        return None
    if op == "neg":
        if not ok or toZ(res[1], res[2]) != -toZ(args[0], args[1]):
            return bad("negation")
        return None
    if op == "abs":
        if not ok or toZ(res[1], res[2]) != abs(toZ(args[0], args[1])):
            return bad("absolute value")
        return None
    if op in ("isneg", "ispos", "iszero"):
        a = toZ(args[0], args[1])
        exp = {"isneg": a < 0, "ispos": a >= 0, "iszero": a == 0}[op]
        if not ok or (res[1] == "1") != exp:
            return bad(f"expected {int(exp)}")
        return None
    if op == "tostr":
        a = toZ(args[0], args[1])
        if not ok or unhex(res[1]) != str(a):
            return bad(f"expected '{a}'")
        return None
    if op == "roundtrip":
        if not ok or res[1] != "1":
            return bad("parse(print x) is not == x")
        return None
    if op == "serde":
        if not ok or toZ(res[1], res[2]) != toZ(args[0], args[1]):
            return bad("serde round trip changes the value")
        return None
    if op == "fromstr":
        s = unhex(args[0])
        import re
        if re.fullmatch(r"-?[0-9]+", s) and abs(int(s)) < M:
            if not ok or toZ(res[1], res[2]) != int(s):
                return bad(f"expected {int(s)}")
            # the parsed value must be consistent: a parsed zero is the zero
            if int(s) == 0 and res[1:] != ["0", "0"]:
                return bad("parsed zero is not the canonical zero")
        return None
    if op in ("newpos", "newneg", "fromi128"):
        v = int(args[0])
        neg = (op == "newneg") or (op == "fromi128" and args[1] == "1")
        if not ok or toZ(res[1], res[2]) != (-v if neg else v):
            return bad("constructor value")
        return None
    return ("other", "unknown op: " + line)


def nontrivial(line):
    """a case is non-trivial when it is a binary operation with both operands non-zero or a
    zero-valued result / operand going through a predicate or printer"""
    toks = line.split()
    if len(toks) < 6:
        return False
    return True


def monitor(paths):
    viol = []
    stats = {"lines": 0, "ops": {}, "err_lines": 0, "zero_results": 0}
    distinct = set()
    samples = []
    for p in paths:
        for line in open(p):
            line = line.rstrip("\n")
            if not line.startswith("I "):
                continue
            stats["lines"] += 1
            toks = line.split()
            stats["ops"][toks[1]] = stats["ops"].get(toks[1], 0) + 1
            if toks[-1] == "err":
                stats["err_lines"] += 1
            if toks[-2:] in (["0", "0"], ["0", "1"]) and toks[1] in BIN:
                stats["zero_results"] += 1
            k = toks.index("=>")
            if len(toks[2:k]) >= 2:
                distinct.add(" ".join(toks[1:k]))
            if len(samples) < 6 and stats["lines"] % 20011 == 7:
                samples.append(line)
            r = check_line(line)
            if r is not None:
                viol.append({"cls": r[0], "desc": r[1], "case": [line]})
    stats["distinct"] = len(distinct)
    stats["samples"] = samples
    return viol, stats
