"""Implementation-side monitors: each property's statement as an executable predicate over the
traces of the real contracts (queries, balances, raw storage), independent of the Coq model.
Every monitor returns (violations, stats).  A violation = {cls, desc, case} where `case` is the
replayable prefix of the history and `cls` identifies the failing call site / input shape."""
import trace as T
from trace import ival, tdiv

PARTIES = (2, 3, 4)


def I(obs, k, default=None):
    v = obs.get(k)
    if v is None or v in ("err", "none"):
        return default
    try:
        return int(v)
    except ValueError:
        return default


def pos(obs, v, t):
    k = f"p{v}.{t}"
    if obs.get(k) != "some":
        return None
    return {
        "dir": obs[k + ".dir"], "size": int(obs[k + ".size"]), "margin": int(obs[k + ".margin"]),
        "notional": int(obs[k + ".notional"]), "lupf": int(obs[k + ".lupf"]), "block": int(obs[k + ".block"]),
        "mr": I(obs, k + ".mr"), "fc": I(obs, k + ".fc"),
        "pn_spot": I(obs, k + ".pn_spot"), "pnl_spot": I(obs, k + ".pnl_spot"),
        "pn_twap": I(obs, k + ".pn_twap"), "pnl_twap": I(obs, k + ".pnl_twap"),
        "pn_oracle": I(obs, k + ".pn_oracle"), "pnl_oracle": I(obs, k + ".pnl_oracle"), "mwf": I(obs, k + ".mwf"),
    }


def bal(obs, a):
    return I(obs, f"bal.{a}", 0)


def funding_owed(obs, v, p):
    """(cumulative fraction - checkpoint) * size / D, truncated"""
    cpf = I(obs, f"v{v}.cpf", 0)
    D = I(obs, "e.dec")
    return tdiv((cpf - p["lupf"]) * p["size"], D)


def free_collateral_of(obs, v, p):
    """min(margin after funding, margin after funding + PnL) - notional x initial ratio / D, with the PnL view of smaller
    magnitude (spot / 15-minute TWAP); notional = open notional for a long, position notional for a short"""
    if p["pnl_spot"] is None or p["pnl_twap"] is None or p["pn_spot"] is None or p["pn_twap"] is None:
        return None
    D = I(obs, "e.dec")
    mrg = max(0, p["margin"] - funding_owed(obs, v, p))
    if abs(p["pnl_spot"]) > abs(p["pnl_twap"]):
        pn, upnl = p["pn_twap"], p["pnl_twap"]
    else:
        pn, upnl = p["pn_spot"], p["pnl_spot"]
    account = upnl + mrg
    min_coll = mrg if upnl >= 0 else account
    req = (p["notional"] if p["size"] > 0 else pn) * I(obs, "e.init") // D
    return min_coll - req


class Mon:
    def __init__(self, prop):
        self.prop = prop
        self.viol = []
        self.stats = {"histories": 0, "steps": 0, "ok_steps": 0, "checked": 0, "nontrivial": 0, "by_verb": {}, "paths": {}}
        self.samples = []
        self.distinct = set()

    def bad(self, h, i, cls, msg):
        s = h.steps[i]
        if len(self.viol) < 400:
            self.viol.append({"cls": cls, "desc": f"{msg} @ [{h.label}] step {s.n}: {s.text}", "case": h.case(i)})

    def hit(self, key, h=None, i=None):
        self.stats["paths"][key] = self.stats["paths"].get(key, 0) + 1
        self.stats["nontrivial"] += 1
        if h is not None:
            self.distinct.add((h.label, h.steps[i].n))
            if len(self.samples) < 8 and self.stats["paths"][key] == 1:
                self.samples.append({"path": key, "history": h.label, "op": h.steps[i].text, "result": "ok" if h.steps[i].ok else "err"})

    def result(self):
        st = dict(self.stats)
        st["distinct"] = len(self.distinct)
        st["evaluations"] = self.stats["steps"]
        st["samples"] = self.samples
        return self.viol, st


def classify_path(h, i):
    """which reply path a successful engine op took, from pre/post observations"""
    s = h.steps[i]
    if s.kind != "eng" or not s.ok or s.pre is None:
        return None
    verb = s.verb()
    snd = s.sender()
    if verb == "open":
        v = int(s.toks[4])
        side = s.toks[5]
        pre = pos(s.pre, v, snd)
        post = pos(s.obs, v, snd)
        if pre is None or pre["size"] == 0:
            return "open-new"
        same = (pre["dir"] == "A") == (side == "B")
        if same:
            return "increase"
        if post is None or post["size"] == 0:
            return "reverse-flat"
        if (post["size"] > 0) != (pre["size"] > 0):
            return "reverse-reopen"
        return "reduce"
    if verb == "close":
        v = int(s.toks[4])
        post = pos(s.obs, v, snd)
        return "close" if post is None else "partial-close"
    if verb == "liq":
        v = int(s.toks[4])
        t = int(s.toks[5])
        post = pos(s.obs, v, t)
        return "liquidate-full" if post is None else "liquidate-partial"
    if verb == "payfunding":
        v = int(s.toks[4])
        d = I(s.obs, f"v{v}.cpf", 0) - I(s.pre, f"v{v}.cpf", 0)
        return "funding+" if d > 0 else ("funding-" if d < 0 else "funding0")
    return verb


def run(prop, paths, fn):
    m = Mon(prop)
    for p in paths:
        for h in T.parse(p):
            m.stats["histories"] += 1
            for i, s in enumerate(h.steps):
                m.stats["steps"] += 1
                if s.ok:
                    m.stats["ok_steps"] += 1
                vb = s.kind + ":" + s.verb()
                m.stats["by_verb"][vb] = m.stats["by_verb"].get(vb, 0) + 1
                if s.pre is None:
                    continue
                fn(m, h, i, s)
    return m.result()


# ------------------------------------------------------------------------------------------- C02
def c02(m, h, i, s):
    for v in h.vamms:
        total = I(s.obs, f"v{v}.total")
        sizes = 0
        npos = 0
        coherent = True
        for t in h.accounts:
            p = pos(s.obs, v, t)
            if p:
                sizes += p["size"]
                npos += 1 if p["size"] else 0
        m.stats["checked"] += 1
        # every stored position's direction agrees with the sign of its size (the next whole-position swap is built
        # from the stored direction and |size|)
        for t in h.accounts:
            p = pos(s.obs, v, t)
            if p and p["size"] != 0 and (p["dir"] == "A") != (p["size"] > 0):
                q = pos(s.pre, v, t)
                if not (q and q["size"] != 0 and (q["dir"] == "A") != (q["size"] > 0)):
                    m.bad(h, i, "direction_sign_mismatch", f"position of {t} on {v}: direction {p['dir']} with size {p['size']}")
        if npos >= 2:
            path = classify_path(h, i)
            if path:
                m.hit(path, h, i)
        if sizes != total:
            # the step that broke it
            pre_total = I(s.pre, f"v{v}.total")
            pre_sizes = sum((pos(s.pre, v, t) or {"size": 0})["size"] for t in h.accounts)
            if pre_sizes == pre_total:
                cls = "other"
                if s.kind == "eng" and s.verb() == "liq" and s.notes.get("pl_branch") == "input":
                    cls = "pl_input_branch"
                m.bad(h, i, cls, f"sum of sizes {sizes} != vAMM net {total} on vamm {v}")
            else:
                # downstream of an earlier corruption in this history: attribute to that class
                m.bad(h, i, "downstream", f"sum of sizes {sizes} != vAMM net {total} on vamm {v} (already broken earlier)")
            return


# ------------------------------------------------------------------------------------------- C03
def c03(m, h, i, s):
    ids = list(PARTIES) + h.accounts
    if s.kind == "tok" and s.verb() == "mint":
        return
    pre_tot = sum(bal(s.pre, a) for a in ids)
    post_tot = sum(bal(s.obs, a) for a in ids)
    m.stats["checked"] += 1
    changed = [a for a in ids if bal(s.pre, a) != bal(s.obs, a)]
    if changed:
        path = classify_path(h, i) or (s.kind + ":" + s.verb())
        m.hit(path, h, i)
    if pre_tot != post_tot:
        m.bad(h, i, "not_conserved", f"total collateral {pre_tot} -> {post_tot}")
        return
    # "the insurance fund" and "the fee pool" are the ones the engine's owner configured: the addresses are followed
    # through the history, and only a successful UpdateConfig sent by the owner of the time moves them
    auth = h.__dict__.setdefault("_c03_auth", {})
    if not auth:
        auth["ifund"], auth["feepool"] = I(s.pre, "e.ifund"), I(s.pre, "e.feepool")
    if s.kind == "eng":
        allowed = {s.sender(), 2, auth["ifund"], auth["feepool"]}
        if s.verb() == "updcfg" and s.ok and s.sender() == I(s.pre, "e.owner"):
            auth["ifund"], auth["feepool"] = I(s.obs, "e.ifund"), I(s.obs, "e.feepool")
        extra = [a for a in changed if a not in allowed]
        if extra:
            m.bad(h, i, "foreign_recipient", f"balances of {extra} changed in an engine transaction by {s.sender()}")
        if s.verb() == "liq" and s.ok:
            t = int(s.toks[5])
            if t != s.sender() and bal(s.obs, t) > bal(s.pre, t):
                m.bad(h, i, "liquidated_paid", f"liquidated trader {t} received {bal(s.obs, t) - bal(s.pre, t)}")
    elif s.kind == "fp" and s.verb() == "send":
        allowed = {4, int(s.toks[5])}
        extra = [a for a in changed if a not in allowed]
        if extra:
            m.bad(h, i, "foreign_recipient", f"fee pool payout changed {extra}")
    elif s.kind == "if" and s.verb() == "withdraw":
        extra = [a for a in changed if a not in (2, 3)]
        if extra:
            m.bad(h, i, "foreign_recipient", f"insurance-fund withdrawal changed {extra}")
    elif s.kind == "tok":
        pass
    else:
        if changed:
            m.bad(h, i, "foreign_recipient", f"balances {changed} changed by a {s.kind} operation")


# ------------------------------------------------------------------------------------------- C04
def fees_for(obs, v, notional):
    D = I(obs, "e.dec")
    if notional == 0:
        return 0, 0
    return notional * I(obs, f"v{v}.toll") // D, notional * I(obs, f"v{v}.spread") // D


def c04(m, h, i, s):
    if s.kind != "eng":
        return
    verb = s.verb()
    snd = s.sender()
    native = h.deploy["native"] == 1
    if verb in ("open", "close", "deposit", "withdraw") and s.ok:
        ifa = I(s.pre, "e.ifund")
        drop = bal(s.pre, ifa) - bal(s.obs, ifa)
        rec = I(s.obs, "e.baddebt") - I(s.pre, "e.baddebt")
        m.stats["checked"] += 1
        if drop > 0:
            m.hit("fund-draw:" + verb, h, i)
        if drop > max(rec, 0) and ifa == 3:
            m.bad(h, i, "fund_draw_unrecorded", f"insurance fund fell by {drop} but prepaid bad debt rose by {rec}")
    if verb != "close":
        return
    v = int(s.toks[4])
    pre = pos(s.pre, v, snd)
    if pre is None or pre["size"] == 0:
        return
    post = pos(s.obs, v, snd)
    q_exch = abs(I(s.obs, f"v{v}.q") - I(s.pre, f"v{v}.q"))
    f = funding_owed(s.pre, v, pre)
    if s.ok and post is None:
        rpnl = (q_exch - pre["notional"]) if pre["dir"] == "A" else (pre["notional"] - q_exch)
        equity = pre["margin"] + rpnl - f
        toll, spread = fees_for(s.pre, v, pre["notional"])
        delta = bal(s.obs, snd) - bal(s.pre, snd)
        # cw20: the fees are pulled from the trader's wallet; native: whatever the caller attached is kept
        expect = equity - (int(s.toks[2]) if native else toll + spread)
        m.stats["checked"] += 1
        m.hit("close-long" if pre["size"] > 0 else "close-short", h, i)
        if f != 0:
            m.hit("close-with-funding", h, i)
        if equity < 0:
            m.bad(h, i, "bad_debt_cashed", f"close succeeded with negative equity {equity}")
        elif delta != expect:
            m.bad(h, i, "close_payout", f"wallet delta {delta} != margin {pre['margin']} + rpnl {rpnl} - funding {f} - fees {toll + spread} = {expect}")
    elif s.ok and post is not None:
        m.hit("partial-close" + ("-with-funding" if f else ""), h, i)
        if post["size"] == 0 or (post["size"] > 0) != (pre["size"] > 0):
            m.bad(h, i, "partial_close_flip", "partial close flipped or emptied the position")
        # a partial close that would leave the trader owing more than the margin must be rejected:
        # remaining margin = margin + realised share of the PnL - funding owed on the whole position
        closed = abs(pre["size"]) - abs(post["size"])
        if pre["pnl_spot"] is not None and pre["size"] != 0:
            realized = tdiv(pre["pnl_spot"] * closed, abs(pre["size"]))
            remain = pre["margin"] + realized - f
            if remain < 0:
                m.bad(h, i, "partial_close_bad_debt", f"partial close accepted although margin {pre['margin']} + realised pnl {realized} - funding {f} = {remain} < 0")
            elif post["margin"] != remain:
                m.bad(h, i, "partial_close_margin", f"margin after partial close {post['margin']}, expected {pre['margin']} + {realized} - funding {f} = {remain}")


# ------------------------------------------------------------------------------------------- C05
def c05(m, h, i, s):
    if s.kind != "eng":
        return
    verb = s.verb()
    snd = s.sender()
    D = I(s.pre, "e.dec")
    native = h.deploy["native"] == 1
    if verb == "open":
        v = int(s.toks[4])
        lev = int(s.toks[7])
        init = I(s.pre, "e.init")
        m.stats["checked"] += 1
        if lev < D or lev * init > D * D:
            m.hit("leverage-out-of-bounds", h, i)
            if s.ok:
                m.bad(h, i, "leverage_bound", f"OpenPosition accepted leverage {lev} (D={D}, initial ratio {init})")
        elif lev * init == D * D or lev == D:
            m.hit("leverage-at-bound", h, i)
        if s.ok:
            p = pos(s.obs, v, snd)
            if p and p["size"] != 0:
                m.hit(classify_path(h, i) or "open", h, i)
                maint = I(s.obs, "e.maint")
                if p["mr"] is None or p["mr"] < maint:
                    m.bad(h, i, "under_margined_after_open", f"margin ratio {p['mr']} < maintenance {maint} after a successful OpenPosition")
    elif verb == "withdraw":
        v = int(s.toks[4])
        amt = int(s.toks[5])
        pre = pos(s.pre, v, snd)
        if s.ok:
            post = pos(s.obs, v, snd)
            m.stats["checked"] += 1
            m.hit("withdraw", h, i)
            if pre is None or post is None:
                m.bad(h, i, "withdraw_no_position", "WithdrawMargin succeeded without a position")
                return
            f = funding_owed(s.pre, v, pre)
            if f != 0:
                m.hit("withdraw-with-funding", h, i)
            # (coins the caller attached to the call - native collateral only - left the wallet with it and stay in the vault)
            att = int(s.toks[2])
            if bal(s.obs, snd) - bal(s.pre, snd) != amt - att:
                m.bad(h, i, "withdraw_wallet", f"wallet delta {bal(s.obs, snd) - bal(s.pre, snd)} != requested {amt} - attached {att}")
            if post["margin"] != pre["margin"] - amt - f:
                m.bad(h, i, "withdraw_margin", f"stored margin {pre['margin']} -> {post['margin']}, expected -{amt} - funding {f}")
            if post["fc"] is None or post["fc"] < 0:
                m.bad(h, i, "withdraw_free_collateral", f"free collateral {post['fc']} after a successful WithdrawMargin")
            # the same quantity recomputed from primary observations (stored position, cumulative fraction, the two PnL
            # views, the initial ratio) rather than read from the engine's own FreeCollateral query
            fc2 = free_collateral_of(s.obs, v, post)
            if fc2 is not None:
                if fc2 < 0:
                    m.bad(h, i, "withdraw_free_collateral", f"free collateral recomputed as {fc2} (the engine's query says {post['fc']}) after a successful WithdrawMargin")
                m.hit("withdraw-fc-recomputed" + (":boundary" if 0 <= fc2 <= 1 else ""), h, i)
            if post["lupf"] != I(s.obs, f"v{v}.cpf", 0):
                m.bad(h, i, "withdraw_checkpoint", "funding checkpoint not advanced by WithdrawMargin")
        elif pre is not None:
            f = funding_owed(s.pre, v, pre)
            if pre["margin"] - amt - f < 0:
                m.hit("withdraw-bad-debt-rejected", h, i)
    elif verb == "deposit" and s.ok:
        v = int(s.toks[4])
        amt = int(s.toks[5])
        pre = pos(s.pre, v, snd)
        post = pos(s.obs, v, snd)
        m.stats["checked"] += 1
        m.hit("deposit", h, i)
        if pre is None or post is None:
            m.bad(h, i, "deposit_no_position", "DepositMargin succeeded without a position")
            return
        if post["margin"] != pre["margin"] + amt or bal(s.pre, snd) - bal(s.obs, snd) != amt:
            m.bad(h, i, "deposit_amount", f"margin {pre['margin']} -> {post['margin']}, wallet -{bal(s.pre, snd) - bal(s.obs, snd)}, amount {amt}")
    if verb == "withdraw" and s.ok is False:
        pass


# ------------------------------------------------------------------------------------------- C06
def liq_ratio(obs, v, t):
    """margin ratio as defined for liquidation, from the observation before the call"""
    p = pos(obs, v, t)
    if p is None or p["size"] == 0:
        return None
    mr = p["mr"]
    if mr is None:
        return None
    # the spread condition is recomputed here (not read from the implementation's own answer):
    # |spot - oracle| x D / oracle >= D / 10
    spot, up = I(obs, f"v{v}.spot"), I(obs, f"v{v}.uprice")
    Dv = I(obs, "e.dec")
    over = False
    if spot is not None and up not in (None, 0):
        over = abs(tdiv((spot - up) * Dv, up)) >= Dv // 10
    if over:
        D = I(obs, "e.dec")
        f = funding_owed(obs, v, p)
        if p["pn_oracle"] in (None, 0) or p["pnl_oracle"] is None:
            return None
        rm = p["margin"] + p["pnl_oracle"] - f
        omr = tdiv(rm * D, p["pn_oracle"])
        if omr > mr:
            return omr
    return mr


def c06(m, h, i, s):
    if s.kind != "eng" or s.verb() != "liq" or not s.ok:
        return
    v = int(s.toks[4])
    t = int(s.toks[5])
    snd = s.sender()
    D = I(s.pre, "e.dec")
    pre = pos(s.pre, v, t)
    post = pos(s.obs, v, t)
    m.stats["checked"] += 1
    if pre is None or pre["size"] == 0:
        m.bad(h, i, "liq_no_position", "Liquidate succeeded on an empty position")
        return
    ratio = liq_ratio(s.pre, v, t)
    maint = I(s.pre, "e.maint")
    if ratio is not None and ratio > maint:
        m.bad(h, i, "liq_overcollateralized", f"liquidation ratio {ratio} > maintenance {maint}")
    q_exch = abs(I(s.obs, f"v{v}.q") - I(s.pre, f"v{v}.q"))
    penalty = q_exch * I(s.pre, "e.liqfee") // D
    half = penalty // 2
    ifa = I(s.pre, "e.ifund")
    # (coins the liquidator attached to the call - native collateral only - left the wallet with it and stay in the vault)
    liq_delta = bal(s.obs, snd) - bal(s.pre, snd) + int(s.toks[2])
    if_delta = bal(s.obs, ifa) - bal(s.pre, ifa)
    if post is None:
        m.hit("full" + ("-overspread" if s.pre.get(f"v{v}.overspread") == "1" else ""), h, i)
        if ratio is not None and ratio == maint:
            m.hit("full-at-maintenance", h, i)
        if snd != t and liq_delta != half:
            m.bad(h, i, "liq_fee_full", f"liquidator received {liq_delta}, expected half of penalty {penalty} = {half}")
        if snd != t and bal(s.obs, t) != bal(s.pre, t):
            m.bad(h, i, "liq_trader_paid", f"liquidated trader's balance changed by {bal(s.obs, t) - bal(s.pre, t)}")
        f = funding_owed(s.pre, v, pre)
        rpnl = (q_exch - pre["notional"]) if pre["dir"] == "A" else (pre["notional"] - q_exch)
        equity = pre["margin"] + rpnl - f
        if equity >= half and ifa == 3 and snd != 3:
            if if_delta != equity - half:
                m.bad(h, i, "liq_remaining_margin", f"insurance fund received {if_delta}, expected remaining margin {equity - half}")
    else:
        plr = I(s.pre, "e.plr")
        m.hit("partial" + ("-" + s.notes.get("pl_branch", "?")), h, i)
        frac = abs(pre["size"]) * plr // D
        if abs(post["size"]) != abs(pre["size"]) - frac or (post["size"] != 0 and (post["size"] > 0) != (pre["size"] > 0)):
            cls = "pl_input_branch" if s.notes.get("pl_branch") == "input" else "partial_size"
            m.bad(h, i, cls, f"partial liquidation moved size {pre['size']} -> {post['size']}, expected |size| - {frac}, sign kept")
        elif snd != t and (liq_delta != half or (ifa == 3 and if_delta != half and I(s.obs, 'e.baddebt') == I(s.pre, 'e.baddebt'))):
            m.bad(h, i, "partial_fee_split", f"liquidator {liq_delta}, fund {if_delta}, expected {half} each")


# ------------------------------------------------------------------------------------------- C07
def c07(m, h, i, s):
    if s.kind != "eng" or s.verb() != "liq":
        return
    v = int(s.toks[4])
    t = int(s.toks[5])
    pre = pos(s.pre, v, t)
    if pre is None or pre["size"] == 0:
        return
    ratio = liq_ratio(s.pre, v, t)
    real_feed = h.deploy["realfeed"] == 1
    maint = I(s.pre, "e.maint")
    D = I(s.pre, "e.dec")
    if real_feed:
        # the ratio as defined (no oracle override can be computed: the oracle query itself fails)
        ratio = pre["mr"]
    if ratio is None or not (ratio < maint):
        return
    # the statement's preconditions
    if s.pre.get(f"v{v}.open") != "1" or s.pre.get(f"if.isvamm.{v}") != "1" or I(s.pre, "e.ifund") != 3:
        return
    if I(s.pre, "e.liqfee") == 0:
        return
    if I(s.pre, f"v{v}.fluct") != 0:
        # "not already outside its per-block band": evaluated from the snapshots
        if not in_band(s.pre, v, I(s.pre, f"v{v}.spot"), I(s.pre, "env.height")):
            return
    b = I(s.pre, f"v{v}.b")
    if pre["size"] < 0 and abs(pre["size"]) >= b:
        return  # the vAMM cannot fill the closing trade
    # the fund must hold enough for any shortfall: demand a generous bound
    need = pre["notional"] * 3 + pre["margin"] + abs(pre["pnl_spot"] or 0) * 2 + abs(funding_owed(s.pre, v, pre)) * 2
    if bal(s.pre, 3) < need:
        return
    m.stats["checked"] += 1
    m.hit("liquidatable" + ("-negative-equity" if ratio < 0 else "") + ("-plr" if I(s.pre, "e.plr") else ""), h, i)
    if not s.ok:
        plr = I(s.pre, "e.plr")
        liqfee = I(s.pre, "e.liqfee")
        pen = (pre["pn_spot"] or 0) * liqfee // D
        f = funding_owed(s.pre, v, pre)
        q_exch = pre["pn_spot"] or 0
        rpnl = (q_exch - pre["notional"]) if pre["dir"] == "A" else (pre["notional"] - q_exch)
        equity = pre["margin"] + rpnl - f
        if real_feed:
            cls = "real_feed_decode"          # the vAMM cannot decode the repository feed's GetPrice answer
        elif plr != 0 and abs(ratio) > liqfee:
            # the code's test `margin_ratio.value > liquidation_fee` sent this position down the partial path
            cls = "sign_blind_partial" if ratio < 0 else "partial_underflow"
        elif bal(s.pre, 2) < max(equity, 0):
            cls = "stale_vault_balance"       # the vault holds less than the position's remaining margin
        elif I(s.pre, "e.baddebt") != 0 and max(-equity, 0) + max(pen // 2 - max(equity, 0), 0) == I(s.pre, "e.baddebt"):
            cls = "zero_fund_draw"            # bad debt to realise == prepaid amount: a Withdraw of zero is queued (fixed 40ca1a8)
        else:
            cls = "other"
        m.bad(h, i, cls, f"Liquidate failed although ratio {ratio} < maintenance {maint}, vAMM open/registered, fee {liqfee}, fund {bal(s.pre, 3)}")


def in_band(obs, v, price, height):
    """price inside [1-L, 1+L] x the price at the end of the previous block (integer band of the code)"""
    D = I(obs, f"v{v}.dec")
    L = I(obs, f"v{v}.fluct")
    s0 = obs.get(f"v{v}.s0")
    s1 = obs.get(f"v{v}.s1")
    if s0 in (None, "none"):
        return True
    q, b, _, hh = [int(x) for x in s0.split("/")]
    if hh == height and s1 in (None, "none"):
        return True   # the vAMM was instantiated in this very block: there is no previous block
    if hh == height and s1 not in (None, "none"):
        q, b, _, _ = [int(x) for x in s1.split("/")]
    ref = q * D // b
    upper = ref * (D + L) // D
    lower = ref * (D - L) // D
    return lower <= price <= upper


# ------------------------------------------------------------------------------------------- C08
def c08(m, h, i, s):
    m.stats["checked"] += 1
    if s.kind == "eng":
        if s.fault is not None:
            m.hit(f"fault@{s.fault}:{s.verb()}", h, i)
            if s.ok and s.submsgs is not None and s.fault < s.submsgs:
                m.bad(h, i, "fault_swallowed", f"sub-message {s.fault} failed but the transaction succeeded")
        elif not s.ok:
            m.hit("natural-failure:" + s.verb(), h, i)
        if not s.ok and s.unchanged is False:
            m.bad(h, i, "state_changed_on_error", "storage or balances changed although the transaction failed")
    for k in ("e.tmpswap", "e.sentfunds", "e.tmpliq"):
        if s.obs.get(k) != "0":
            m.bad(h, i, "residue", f"in-flight record {k} left behind")


# ------------------------------------------------------------------------------------------- C10
POS_FIELDS = ("", ".dir", ".size", ".margin", ".notional", ".lupf", ".block")


def c10(m, h, i, s):
    snd = s.sender()
    named = None
    if s.kind == "eng" and s.verb() == "liq":
        named = int(s.toks[5])
    m.stats["checked"] += 1
    others = 0
    for v in h.vamms:
        for t in h.accounts:
            if t == named:
                continue
            if s.kind == "eng" and t == snd:
                continue
            k = f"p{v}.{t}"
            if s.pre.get(k) == "some":
                others += 1
            for fsuf in POS_FIELDS:
                if s.pre.get(k + fsuf) != s.obs.get(k + fsuf):
                    m.bad(h, i, "foreign_position_changed", f"position {k}{fsuf} changed {s.pre.get(k + fsuf)} -> {s.obs.get(k + fsuf)}")
                    return
    if others and s.kind == "eng" and s.ok:
        m.hit(classify_path(h, i) or s.verb(), h, i)


# ------------------------------------------------------------------------------------------- C11
def c11(m, h, i, s):
    # the cumulative premium fraction moves in a successful PayFunding on that vAMM and nowhere else
    for v in h.vamms:
        if I(s.obs, f"v{v}.cpf", 0) != I(s.pre, f"v{v}.cpf", 0) and s.pre.get(f"v{v}.cpf") is not None:
            if not (s.kind == "eng" and s.verb() == "payfunding" and s.ok and int(s.toks[4]) == v):
                m.bad(h, i, "fraction_moved_outside_funding", f"cumulative premium fraction of {v} went {I(s.pre, f'v{v}.cpf', 0)} -> {I(s.obs, f'v{v}.cpf', 0)} in {s.text}")
    if s.kind != "eng":
        return
    verb = s.verb()
    D = I(s.pre, "e.dec")
    snd = s.sender()
    if verb == "payfunding":
        v = int(s.toks[4])
        if v not in h.vamms:
            return
        now = I(s.pre, "env.time")
        nxt = I(s.pre, f"v{v}.nextfund")
        period = h.vamms[v]["fperiod"]
        m.stats["checked"] += 1
        if now < nxt:
            m.hit("funding-too-early", h, i)
            if s.ok:
                m.bad(h, i, "funding_early", f"PayFunding succeeded at {now} < next funding time {nxt}")
            return
        if now == nxt:
            m.hit("funding-exactly-on-time", h, i)
        if not s.ok:
            return
        twap = I(s.pre, f"v{v}.twap")
        utwap = I(s.pre, f"v{v}.utwap")
        dc = I(s.obs, f"v{v}.cpf", 0) - I(s.pre, f"v{v}.cpf", 0)
        exp = tdiv((twap - utwap) * period, 86400)
        m.hit(classify_path(h, i), h, i)
        if dc != exp:
            m.bad(h, i, "funding_fraction", f"cumulative fraction advanced by {dc}, expected (twap {twap} - oracle {utwap}) x {period} / 86400 = {exp}")
        if I(s.obs, f"v{v}.nextfund") < now + period // 2:
            m.bad(h, i, "funding_next_time", f"next funding time {I(s.obs, f'v{v}.nextfund')} < now + period/2")
        total = I(s.pre, f"v{v}.total")
        pay = tdiv(total * exp, D)
        ifa = I(s.pre, "e.ifund")
        # coins the caller attached to the call (native collateral) reach the vault before the handler runs: they are
        # part of the vault's balance the payment is capped at, and are not part of the funding movement
        att = int(s.toks[2])
        if att:
            m.hit("funding-with-coins-attached", h, i)
        d_eng = bal(s.obs, 2) - bal(s.pre, 2) - att
        d_if = bal(s.obs, ifa) - bal(s.pre, ifa)
        if pay > 0:
            amt = min(pay, bal(s.pre, 2) + att)
            m.hit("funding-to-fund" + ("-capped" if amt < pay else ""), h, i)
            if (d_eng, d_if) != (-amt, amt):
                m.bad(h, i, "funding_transfer", f"expected {amt} vault -> fund, saw vault {d_eng}, fund {d_if}")
        elif pay < 0:
            m.hit("funding-from-fund", h, i)
            if (d_eng, d_if) != (-pay, pay):
                m.bad(h, i, "funding_transfer", f"expected {-pay} fund -> vault, saw vault {d_eng}, fund {d_if}")
        elif (d_eng, d_if) != (0, 0):
            m.bad(h, i, "funding_transfer", "collateral moved although the payment is zero")
        return
    if not s.ok:
        return
    # charged once: whenever the owner trades / withdraws / closes, or the position is fully liquidated
    if verb in ("open", "withdraw", "close"):
        v = int(s.toks[4])
        pre = pos(s.pre, v, snd)
        post = pos(s.obs, v, snd)
        if pre is None or pre["size"] == 0:
            return
        f = funding_owed(s.pre, v, pre)
        cpf = I(s.obs, f"v{v}.cpf", 0)
        m.stats["checked"] += 1
        path = classify_path(h, i)
        if f != 0:
            m.hit("charge:" + str(path), h, i)
        if path in ("reverse-flat", "reverse-reopen"):
            # value conservation for the trader: wallet delta + new margin = old margin + rpnl - funding - fees
            if f != 0:
                native = h.deploy["native"] == 1
                N = int(s.toks[6]) * int(s.toks[7]) // D
                toll, spread = fees_for(s.pre, v, N)
                # quote exchanged for the old position = old position's spot notional
                q_old = pre["pn_spot"]
                rpnl = (q_old - pre["notional"]) if pre["dir"] == "A" else (pre["notional"] - q_old)
                newm = post["margin"] if post else 0
                actual = bal(s.obs, snd) - bal(s.pre, snd) + newm
                # what can be charged is capped at the margin there is (a margin of zero cannot be charged anything; the
                # shortfall is bad debt, which other properties speak about)
                charged = f if f < 0 else min(f, pre["margin"])
                expect = pre["margin"] + rpnl - charged - (toll + spread)
                if actual != expect and not native:
                    if charged != 0 and actual - expect == charged:
                        m.bad(h, i, "reverse_skips_funding", f"reversal: wallet delta + new margin = {actual}, expected margin {pre['margin']} + rpnl {rpnl} - funding {charged} - fees {toll + spread} = {expect}")
                    else:
                        # a discrepancy that is not the funding amount (e.g. reversal of a position with negative
                        # equity, which the code pays out by absolute value) is not a statement of this property
                        m.hit("reverse-other-discrepancy", h, i)
        elif post is not None and post["size"] != 0 and path != "partial-close":
            if post["lupf"] != cpf:
                m.bad(h, i, "checkpoint_not_advanced", f"checkpoint {post['lupf']} != cumulative fraction {cpf} after {path}")
        if path == "partial-close" and post is not None and post["lupf"] != cpf:
            m.bad(h, i, "checkpoint_not_advanced", f"checkpoint {post['lupf']} != cumulative fraction {cpf} after partial close")
        if path == "partial-close" and post is not None and pre["pnl_spot"] is not None and f != 0:
            closed = abs(pre["size"]) - abs(post["size"])
            realized = tdiv(pre["pnl_spot"] * closed, abs(pre["size"]))
            if pre["margin"] + realized - f >= 0 and post["margin"] != pre["margin"] + realized - f:
                m.bad(h, i, "partial_close_charge", f"partial close charged {pre['margin'] + realized - post['margin']} instead of the funding owed on the whole position {f}")
        if verb == "close" and post is None and f != 0:
            # a whole close pays out margin + realised PnL - funding owed - fees: what it implies was charged is f, once
            native = h.deploy["native"] == 1
            q_exch = abs(I(s.obs, f"v{v}.q") - I(s.pre, f"v{v}.q"))
            rpnl = (q_exch - pre["notional"]) if pre["dir"] == "A" else (pre["notional"] - q_exch)
            toll, spread = fees_for(s.pre, v, pre["notional"])
            delta = bal(s.obs, snd) - bal(s.pre, snd)
            charged = pre["margin"] + rpnl - (int(s.toks[2]) if native else toll + spread) - delta
            if pre["margin"] + rpnl - f >= 0 and charged != f:
                m.bad(h, i, "close_charge", f"whole close charged {charged} of funding, owed {f}")


# ------------------------------------------------------------------------------------------- C12
def expected_fee_ratios(h, i):
    """(toll, spread) per vAMM as instantiated (VAMM header line) and as changed by the successful vAMM UpdateConfig calls
    of the history up to and including step i - independent of what the vAMM's config query reports"""
    st = h.__dict__.setdefault("_fee_ratios", {"upto": -1, "r": {v: [d.get("toll"), d.get("spread")] for v, d in h.vamms.items()}})
    if st["upto"] > i:
        st = h.__dict__["_fee_ratios"] = {"upto": -1, "r": {v: [d.get("toll"), d.get("spread")] for v, d in h.vamms.items()}}
    for j in range(st["upto"] + 1, i + 1):
        sj = h.steps[j]
        if sj.kind == "vamm" and sj.ok and sj.verb() == "updcfg" and int(sj.toks[2]) in st["r"]:
            if sj.toks[6] not in ("-", "none"):
                st["r"][int(sj.toks[2])][0] = int(sj.toks[6])
            if sj.toks[7] not in ("-", "none"):
                st["r"][int(sj.toks[2])][1] = int(sj.toks[7])
    st["upto"] = i
    return st["r"]


def c12(m, h, i, s):
    # the ratios the fees are computed from are the ones the vAMM was instantiated with / last set to
    for v, (toll, spread) in expected_fee_ratios(h, i).items():
        if toll is None or spread is None or s.obs.get(f"v{v}.toll") in (None, "err"):
            continue
        if I(s.obs, f"v{v}.toll") != toll or I(s.obs, f"v{v}.spread") != spread:
            m.bad(h, i, "fee_ratio_not_as_configured",
                  f"vAMM {v} charges toll {I(s.obs, f'v{v}.toll')} / spread {I(s.obs, f'v{v}.spread')}, configured {toll} / {spread}")
    if s.kind != "eng" or not s.ok:
        return
    verb = s.verb()
    D = I(s.pre, "e.dec")
    snd = s.sender()
    ifa = I(s.pre, "e.ifund")
    fpa = I(s.pre, "e.feepool")
    d_if = bal(s.obs, ifa) - bal(s.pre, ifa)
    d_fp = bal(s.obs, fpa) - bal(s.pre, fpa)
    draw = I(s.obs, "e.baddebt") - I(s.pre, "e.baddebt")
    if ifa == fpa or ifa in (snd, 2) or fpa in (snd, 2):
        return
    if verb == "open":
        v = int(s.toks[4])
        N = int(s.toks[6]) * int(s.toks[7]) // D
        toll, spread = fees_for(s.pre, v, N)
        m.stats["checked"] += 1
        path = classify_path(h, i)
        m.hit(f"{path}:" + ("fees" if toll + spread else "zero-fee"), h, i)
        if d_fp != toll:
            m.bad(h, i, "toll_fee", f"fee pool received {d_fp}, expected floor({N} x toll) = {toll} ({path})")
        if d_if + max(draw, 0) != spread and draw >= 0:
            m.bad(h, i, "spread_fee", f"insurance fund delta {d_if} (+ recorded draw {draw}), expected floor({N} x spread) = {spread} ({path})")
    elif verb == "close":
        v = int(s.toks[4])
        pre = pos(s.pre, v, snd)
        post = pos(s.obs, v, snd)
        if pre is None:
            return
        if post is None:
            toll, spread = fees_for(s.pre, v, pre["notional"])
            m.stats["checked"] += 1
            m.hit("close:" + ("fees" if toll + spread else "zero-fee"), h, i)
            if d_fp != toll:
                m.bad(h, i, "toll_fee_close", f"fee pool received {d_fp}, expected fee on open notional {pre['notional']} = {toll}")
            if d_if + max(draw, 0) != spread and draw >= 0:
                m.bad(h, i, "spread_fee_close", f"insurance fund delta {d_if} (+draw {draw}), expected {spread}")
    elif verb in ("deposit", "withdraw", "payfunding", "liq"):
        m.stats["checked"] += 1
        m.hit("free:" + verb, h, i)
        if d_fp != 0:
            m.bad(h, i, "fee_on_free_op", f"fee pool received {d_fp} on {verb}")
        if verb in ("deposit", "withdraw") and d_if > 0:
            m.bad(h, i, "fee_on_free_op", f"insurance fund received {d_if} on {verb}")


# ------------------------------------------------------------------------------------------- C14
def c14(m, h, i, s):
    m.stats["checked"] += 1
    # registry invariants
    lst = s.obs.get("if.vamms")
    if lst not in (None, "err", "[]"):
        ids = lst.split(",")
        if len(ids) != len(set(ids)) or len(ids) > 3:
            m.bad(h, i, "registry", f"registry {lst} has duplicates or more than three entries")
        for v in h.vamms:
            if (str(v) in ids) != (s.obs.get(f"if.isvamm.{v}") == "1"):
                m.bad(h, i, "registry_membership", f"IsVamm({v}) disagrees with the registry {lst}")
    if s.kind == "if" and s.verb() == "shutdown":
        owner = I(s.pre, "if.owner")
        if s.sender() == owner:
            lst0 = s.pre.get("if.vamms")
            regs = [] if lst0 in (None, "err", "[]") else [int(x) for x in lst0.split(",")]
            closed_before = [v for v in regs if s.pre.get(f"v{v}.open") == "0"]
            m.hit(f"shutdown:{len(regs)}reg:{len(closed_before)}closed", h, i)
            still = [v for v in regs if s.obs.get(f"v{v}.open") == "1"]
            if still:
                cls = "shutdown_with_closed_vamm" if closed_before else "shutdown_failed"
                m.bad(h, i, cls, f"after the owner's shutdown vAMMs {still} are still open (already closed before: {closed_before})")
    if s.kind != "eng":
        return
    verb = s.verb()
    if verb in ("open", "close", "liq", "payfunding", "deposit", "withdraw"):
        v = int(s.toks[4])
        paused = s.pre.get("e.pause") == "1"
        if v not in h.vamms:
            return
        closed = s.pre.get(f"v{v}.open") == "0"
        unreg = s.pre.get(f"if.isvamm.{v}") != "1" or I(s.pre, "e.ifund") != 3
        if paused and verb in ("open", "close", "deposit", "withdraw"):
            m.hit("paused:" + verb, h, i)
            if s.ok:
                m.bad(h, i, "paused_op", f"{verb} succeeded while the engine is paused")
        if paused and verb in ("liq", "payfunding") and s.ok:
            m.hit("paused-still-available:" + verb, h, i)
        if paused and verb in ("liq", "payfunding") and not s.ok and i + 2 < len(h.steps):
            # the harness retries a Liquidate / PayFunding refused under pause with the pause lifted
            a, b_ = h.steps[i + 1], h.steps[i + 2]
            if a.kind == "eng" and a.verb() == "setpause" and a.toks[4] == "0" and a.ok and b_.text == s.text:
                m.hit("paused-refused-retried:" + verb + (":ok" if b_.ok else ":err"), h, i)
                if b_.ok:
                    m.bad(h, i, "paused_blocks_" + verb, f"{verb} is refused while the engine is paused and goes through once the pause is lifted")
        if closed and verb in ("open", "close", "liq", "withdraw", "payfunding"):
            m.hit("closed:" + verb, h, i)
            if s.ok:
                m.bad(h, i, "closed_vamm_op", f"{verb} succeeded on a closed vAMM")
        if unreg and verb in ("open", "liq", "withdraw", "payfunding"):
            m.hit("unregistered:" + verb, h, i)
            if s.ok:
                m.bad(h, i, "unregistered_vamm_op", f"{verb} succeeded on an unregistered vAMM")


# ------------------------------------------------------------------------------------------- C15
def c15(m, h, i, s):
    if s.kind != "eng" or not s.ok:
        return
    verb = s.verb()
    snd = s.sender()
    if verb == "open":
        v = int(s.toks[4])
        L = I(s.pre, f"v{v}.fluct")
        if not L:
            return
        p = pos(s.obs, v, snd)
        if p is None or p["size"] == 0:
            return
        m.stats["checked"] += 1
        height = I(s.pre, "env.height")
        path = classify_path(h, i)
        m.hit("open-with-limit:" + str(path), h, i)
        if not in_band(s.pre, v, I(s.pre, f"v{v}.spot"), height):
            m.bad(h, i, "open_when_out_of_band", f"OpenPosition succeeded although the price was already outside the band ({path})")
        elif not in_band(s.pre, v, I(s.obs, f"v{v}.spot"), height):
            cls = "reverse_leg_out_of_band" if path in ("reverse-reopen",) else "open_left_band"
            m.bad(h, i, cls, f"OpenPosition ({path}) left the spot price {I(s.obs, f'v{v}.spot')} outside the band")
    elif verb == "close":
        v = int(s.toks[4])
        L = I(s.pre, f"v{v}.fluct")
        D = I(s.pre, "e.dec")
        plr = I(s.pre, "e.plr")
        if not L or plr >= D:
            return
        pre = pos(s.pre, v, snd)
        post = pos(s.obs, v, snd)
        if pre is None:
            return
        m.stats["checked"] += 1
        height = I(s.pre, "env.height")
        if post is None:
            m.hit("whole-close-with-limit", h, i)
            if not in_band(s.pre, v, I(s.obs, f"v{v}.spot"), height):
                cls = "close_direction" if pre["size"] > 0 else "close_whole_out_of_band"
                m.bad(h, i, cls, f"whole close of size {pre['size']} left the price {I(s.obs, f'v{v}.spot')} outside the band")
        else:
            m.hit("partial-close-with-limit", h, i)
            frac = abs(pre["size"]) * plr // D
            closed = abs(pre["size"]) - abs(post["size"])
            if s.notes.get("whole_close_in_band") == "1":
                cls = "close_direction" if pre["size"] > 0 else "close_partial_needless"
                m.bad(h, i, cls, f"partial close although closing the whole position of {pre['size']} keeps the price inside the band")
            elif closed != frac:
                m.bad(h, i, "partial_close_roundtrip", f"partial close removed {closed} base, configured fraction is {frac}")


# ------------------------------------------------------------------------------------------- C16
def c16(m, h, i, s):
    if s.kind != "eng":
        return
    verb = s.verb()
    if verb not in ("open", "close"):
        return
    v = int(s.toks[4])
    snd = s.sender()
    height = I(s.pre, "env.height")
    # has a liquidation succeeded on v in this block?
    liq_here = False
    traded_here = False
    j = i - 1
    while j >= 0 and I(h.steps[j].obs, "env.height") == height:
        sj = h.steps[j]
        if sj.kind == "eng" and sj.verb() == "liq" and sj.ok and int(sj.toks[4]) == v:
            liq_here = True
        # history-based: the trader opened / modified / partially closed this position earlier in this block
        if sj.kind == "eng" and sj.ok and sj.verb() in ("open", "close") and sj.sender() == snd and int(sj.toks[4]) == v \
                and pos(sj.obs, v, snd) is not None:
            traded_here = True
        j -= 1
    pre = pos(s.pre, v, snd)
    touched = pre is not None and (pre["block"] == height or traded_here)
    m.stats["checked"] += 1
    # "not touched in that block" is judged from the history, not from the stored stamp: a position whose
    # last-update block is this block although no transaction of this block was about it has been marked by
    # somebody else's transaction, and its owner is then restricted without having acted
    if liq_here and pre is not None and pre["block"] == height:
        about = False
        j = i - 1
        while j >= 0 and I(h.steps[j].obs, "env.height") == height:
            sj = h.steps[j]
            if sj.kind == "eng" and sj.ok and len(sj.toks) > 4 and sj.toks[4] == str(v):
                if sj.verb() in ("open", "close", "deposit", "withdraw") and sj.sender() == snd:
                    about = True
                if sj.verb() == "liq" and int(sj.toks[5]) == snd:
                    about = True
            j -= 1
        if not about:
            m.bad(h, i, "untouched_position_restricted",
                  f"position of {snd} on {v} carries block {height} although no transaction of this block was about it; its {verb} is {'accepted' if s.ok else 'refused'}")
    if liq_here and touched:
        m.hit("restricted:" + verb, h, i)
        if s.ok:
            m.bad(h, i, "restriction_bypassed", f"{verb} succeeded in block {height} after a liquidation although the position was already updated in this block")
        elif s.unchanged is False:
            m.bad(h, i, "restriction_changed_state", "rejected attempt changed state")
    elif liq_here:
        m.hit("after-liq-untouched:" + verb + (":ok" if s.ok else ":err"), h, i)
        # a trader who did not touch the position in this block (or has none) is not restricted: a refusal for
        # another reason (margin, caps, band) is fine, the one-action refusal is not
        if not s.ok and s.notes.get("why") == "restricted":
            m.bad(h, i, "untouched_trader_restricted", f"{verb} by {snd} refused as a second action in block {height} although {snd} had not touched a position on {v} in this block")
    elif not s.ok and s.notes.get("why") == "restricted":
        m.bad(h, i, "restricted_without_liquidation", f"{verb} by {snd} refused as a second action in block {height}, in which no liquidation happened on {v}")
    # marker consistency: last_restriction_block == height iff a liquidation succeeded in this block
    lrb = I(s.obs, f"v{v}.lrb", 0)
    if (lrb == height) != liq_here and not (s.kind == "eng" and s.verb() == "liq"):
        m.bad(h, i, "marker", f"last_restriction_block {lrb} vs liquidation in block {height}: {liq_here}")


# ------------------------------------------------------------------------------------------- C20
def c20(m, h, i, s):
    m.stats["checked"] += 1
    D = I(s.obs, "e.dec")
    for k in ("e.init", "e.maint", "e.plr", "e.liqfee"):
        if not (0 <= I(s.obs, k) <= D):
            m.bad(h, i, "engine_ratio_out_of_range", f"{k}={I(s.obs, k)} outside [0, {D}]")
    if I(s.obs, "e.maint") > I(s.obs, "e.init"):
        m.bad(h, i, "maintenance_above_initial", f"maintenance {I(s.obs, 'e.maint')} > initial {I(s.obs, 'e.init')}")
    for v in h.vamms:
        vd = I(s.obs, f"v{v}.dec")
        for k in ("toll", "spread", "fluct"):
            if not (0 <= I(s.obs, f"v{v}.{k}") <= vd):
                m.bad(h, i, "vamm_ratio_out_of_range", f"v{v}.{k}={I(s.obs, f'v{v}.{k}')}")
        if not (60 <= I(s.obs, f"v{v}.twapint") <= 604800):
            m.bad(h, i, "twap_interval", f"v{v}.twapint={I(s.obs, f'v{v}.twapint')}")
        if s.obs.get(f"if.isvamm.{v}") == "1" and vd != D:
            m.bad(h, i, "registered_decimals", f"vAMM {v} registered with decimals {vd} != engine {D}")
    if s.kind in ("eng", "vamm") and s.verb() == "updcfg":
        m.hit(("accepted" if s.ok else "rejected") + ":" + s.kind + "-updcfg", h, i)
    if s.kind == "eng" and s.verb() == "open" and s.ok:
        v = int(s.toks[4])
        snd = s.sender()
        wl = s.pre.get("e.wl", "[]")
        whitelisted = str(snd) in ([] if wl in ("[]", "err") else wl.split(","))
        oicap = I(s.pre, f"v{v}.oicap", 0)
        holdcap = I(s.pre, f"v{v}.holdcap", 0)
        path = classify_path(h, i)
        increasing = path in ("open-new", "increase", "reverse-reopen")
        if (oicap or holdcap) and increasing:
            m.hit(("whitelisted:" if whitelisted else "capped:") + str(path), h, i)
        if increasing and not whitelisted:
            if oicap and I(s.obs, "e.oi") > oicap and path != "reverse-reopen":
                m.bad(h, i, "oi_cap", f"open interest {I(s.obs, 'e.oi')} > cap {oicap} after {path}")
            p = pos(s.obs, v, snd)
            if holdcap and p and abs(p["size"]) > holdcap:
                m.bad(h, i, "holding_cap", f"|size| {abs(p['size'])} > cap {holdcap} after {path}")


MONITORS = {"C02": c02, "C03": c03, "C04": c04, "C05": c05, "C06": c06, "C07": c07, "C08": c08, "C10": c10,
            "C11": c11, "C12": c12, "C14": c14, "C15": c15, "C16": c16, "C20": c20}


def monitor_for(prop):
    fn = MONITORS[prop]
    return lambda paths: run(prop, paths, fn)
