#!/bin/bash
# seedrun.sh <worktree> <seed-id> <prop> [more props...] : apply the seeded patch to /repo, run the checks, undo.
set -u
WT=$1; ID=$2; shift 2
cd /repo || exit 2
if ! git diff --quiet; then echo "/repo dirty"; exit 2; fi
git apply --check $WT/OUT/patch.diff || { echo "patch does not apply"; exit 2; }
git apply $WT/OUT/patch.diff
mkdir -p /verif/seeded/$ID
cp $WT/OUT/patch.diff /verif/seeded/$ID/patch.diff
cp $WT/OUT/demo.diff /verif/seeded/$ID/demo.diff 2>/dev/null
cp $WT/OUT/NOTES.md /verif/seeded/$ID/NOTES.md 2>/dev/null
: > /verif/seeded/$ID/check_output.txt
for P in "$@"; do
  echo "== ./check $P" >> /verif/seeded/$ID/check_output.txt
  (cd /verif && timeout 1200 ./check $P >> /verif/seeded/$ID/check_output.txt 2>&1; echo "exit=$?" >> /verif/seeded/$ID/check_output.txt)
done
git checkout -- .
cd /verif && python3 -c "
import sys; sys.path.insert(0,'tools'); import vlib; vlib.ensure_harness()"
grep -E "^== |VIOLATION|exit=|KNOWN" /verif/seeded/$ID/check_output.txt | cut -c1-220
