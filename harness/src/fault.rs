//! Fault injection without touching /repo: the cw20 token, the vAMM and the insurance fund are
//! deployed through thin wrappers around their real `execute` entry points.  A thread-local plan
//! says "the k-th sub-message dispatched in this transaction fails instead of executing".
use cosmwasm_std::{DepsMut, Env, MessageInfo, Response, StdError, StdResult};
use std::cell::Cell;

thread_local! {
    static FAULT_AT: Cell<i64> = Cell::new(-1);
    static COUNTER: Cell<i64> = Cell::new(0);
}

pub fn arm(k: i64) {
    FAULT_AT.with(|f| f.set(k));
    COUNTER.with(|c| c.set(0));
}
pub fn disarm() -> i64 {
    FAULT_AT.with(|f| f.set(-1));
    COUNTER.with(|c| c.get())
}
pub fn reset_counter() {
    COUNTER.with(|c| c.set(0));
}
pub fn counter() -> i64 {
    COUNTER.with(|c| c.get())
}

fn hit() -> bool {
    let n = COUNTER.with(|c| { let n = c.get(); c.set(n + 1); n });
    FAULT_AT.with(|f| f.get()) == n
}

pub fn cw20_execute(deps: DepsMut, env: Env, info: MessageInfo, msg: cw20::Cw20ExecuteMsg) -> Result<Response, cw20_base::ContractError> {
    if hit() {
        return Err(cw20_base::ContractError::Std(StdError::generic_err("injected fault")));
    }
    cw20_base::contract::execute(deps, env, info, msg)
}

pub fn vamm_execute(deps: DepsMut, env: Env, info: MessageInfo, msg: margined_perp::margined_vamm::ExecuteMsg) -> StdResult<Response> {
    if hit() {
        return Err(StdError::generic_err("injected fault"));
    }
    margined_vamm::contract::execute(deps, env, info, msg)
}

pub fn ifund_execute(deps: DepsMut, env: Env, info: MessageInfo, msg: margined_perp::margined_insurance_fund::ExecuteMsg) -> StdResult<Response> {
    if hit() {
        return Err(StdError::generic_err("injected fault"));
    }
    margined_insurance_fund::contract::execute(deps, env, info, msg)
}
