//! Parameterised deployments of the real contracts in cw-multi-test, the operation alphabet,
//! and the canonical observation of the implementation.
use cosmwasm_std::{
    to_binary, Addr, BankMsg, BlockInfo, Coin, CosmosMsg, Empty, QueryRequest, Timestamp, Uint128,
    WasmMsg, WasmQuery,
};
use cw20::{Cw20Coin, Cw20ExecuteMsg, Cw20QueryMsg, MinterResponse};
use cw_multi_test::{App, AppBuilder, Contract, ContractWrapper, Executor};
use margined_common::asset::AssetInfo;
use margined_common::integer::Integer;
use margined_perp::margined_engine as me;
use margined_perp::margined_fee_pool as mf;
use margined_perp::margined_insurance_fund as mi;
use margined_perp::margined_pricefeed as mp;
use margined_perp::margined_vamm as mv;
use std::fmt::Write as FmtWrite;
use std::panic::{catch_unwind, AssertUnwindSafe};

use crate::fault;

// mirrors of storage records that the contracts keep in private modules (deserialisation only)
#[derive(serde::Deserialize)]
pub struct RawEngineState { pub open_interest_notional: Uint128, pub prepaid_bad_debt: Uint128, pub pause: bool }
#[derive(serde::Deserialize)]
pub struct RawVammMap { pub last_restriction_block: u64, pub cumulative_premium_fractions: Vec<Integer> }
#[derive(serde::Deserialize)]
pub struct RawSnapshot { pub quote_asset_reserve: Uint128, pub base_asset_reserve: Uint128, pub timestamp: Timestamp, pub block_height: u64 }
#[derive(serde::Deserialize)]
pub struct RawPriceData { pub round_id: Uint128, pub price: Uint128, pub timestamp: Timestamp }

pub const ID_OWNER: u32 = 1;
pub const ID_ENGINE: u32 = 2;
pub const ID_IFUND: u32 = 3;
pub const ID_FEEPOOL: u32 = 4;
pub const ID_FEED: u32 = 5;
pub const ID_TOKEN: u32 = 6;
pub const ID_VAMM0: u32 = 11;
pub const ID_SUFFIX_ACCOUNT: u32 = 51;
pub const ID_FORGED_VAMM: u32 = 91;
pub const NATIVE_DENOM: &str = "uwasm";
pub const ORACLE_KEY: &str = "ETH";

#[derive(Clone, Debug)]
pub struct VammInit {
    pub decimals: u8,
    pub q: u128,
    pub b: u128,
    pub fperiod: u64,
    pub toll: u128,
    pub spread: u128,
    pub fluct: u128,
}

#[derive(Clone, Debug)]
pub struct Deploy {
    pub native: bool,
    pub decimals: u8,
    pub real_feed: bool,
    pub init: u128,
    pub maint: u128,
    pub liqfee: u128,
    pub vamms: Vec<VammInit>,
    pub t0: u64,
    pub h0: u64,
}

#[derive(Clone, Debug, PartialEq)]
pub enum Side { Buy, Sell }
#[derive(Clone, Debug, PartialEq)]
pub enum Dir { Add, Rem }

#[derive(Clone, Debug)]
pub enum EMsg {
    UpdCfg { owner: Option<u32>, ifund: Option<u32>, fpool: Option<u32>, init: Option<u128>, maint: Option<u128>, plr: Option<u128>, liqfee: Option<u128> },
    UpdPauser(u32),
    AddWl(u32),
    RmWl(u32),
    Open { vamm: u32, side: Side, margin: u128, lev: u128, limit: u128 },
    Close { vamm: u32, limit: u128 },
    Liq { vamm: u32, trader: u32, limit: u128 },
    PayFunding { vamm: u32 },
    Deposit { vamm: u32, amt: u128 },
    Withdraw { vamm: u32, amt: u128 },
    SetPause(bool),
}

#[derive(Clone, Debug)]
pub enum VMsg {
    SwapIn { dir: Dir, q: u128, lim: u128, cgo: bool },
    SwapOut { dir: Dir, b: u128, lim: u128 },
    Settle,
    SetOpen(bool),
    UpdCfg { hold: Option<u128>, oi: Option<u128>, toll: Option<u128>, spread: Option<u128>, fluct: Option<u128>, engine: Option<u32>, ifund: Option<u32>, feed: Option<u32>, twap: Option<u64> },
    UpdOwner(u32),
}

#[derive(Clone, Debug)]
pub enum IMsg { UpdOwner(u32), Add(u32), Rm(u32), Withdraw(u128), Shutdown }
#[derive(Clone, Debug)]
pub enum FMsg { UpdOwner(u32), Add(u32), Rm(u32), Send { tok: u32, amt: u128, to: u32 } }
#[derive(Clone, Debug)]
pub enum PMsg { Append { price: u128, t: u64 }, AppendMulti { prices: Vec<u128>, times: Vec<u64> }, UpdOwner(u32) }
#[derive(Clone, Debug)]
pub enum TMsg { Allow(u128), Mint { to: u32, amt: u128 }, Send { to: u32, amt: u128 } }

#[derive(Clone, Debug)]
pub enum Op {
    Block { dt: u64, dh: u64 },
    Eng { sender: u32, funds: u128, m: EMsg },
    Vamm { sender: u32, v: u32, m: VMsg },
    If { sender: u32, m: IMsg },
    Fp { sender: u32, m: FMsg },
    Feed { sender: u32, m: PMsg },
    Tok { sender: u32, m: TMsg },
}

fn o<T: std::fmt::Display>(x: &Option<T>) -> String {
    match x { Some(v) => v.to_string(), None => "-".to_string() }
}
fn b(x: bool) -> &'static str { if x { "1" } else { "0" } }

impl Op {
    pub fn text(&self) -> String {
        match self {
            Op::Block { dt, dh } => format!("block {} {}", dt, dh),
            Op::Eng { sender, funds, m } => {
                let body = match m {
                    EMsg::UpdCfg { owner, ifund, fpool, init, maint, plr, liqfee } =>
                        format!("updcfg {} {} {} {} {} {} {}", o(owner), o(ifund), o(fpool), o(init), o(maint), o(plr), o(liqfee)),
                    EMsg::UpdPauser(a) => format!("updpauser {}", a),
                    EMsg::AddWl(a) => format!("addwl {}", a),
                    EMsg::RmWl(a) => format!("rmwl {}", a),
                    EMsg::Open { vamm, side, margin, lev, limit } =>
                        format!("open {} {} {} {} {}", vamm, if *side == Side::Buy { "B" } else { "S" }, margin, lev, limit),
                    EMsg::Close { vamm, limit } => format!("close {} {}", vamm, limit),
                    EMsg::Liq { vamm, trader, limit } => format!("liq {} {} {}", vamm, trader, limit),
                    EMsg::PayFunding { vamm } => format!("payfunding {}", vamm),
                    EMsg::Deposit { vamm, amt } => format!("deposit {} {}", vamm, amt),
                    EMsg::Withdraw { vamm, amt } => format!("withdraw {} {}", vamm, amt),
                    EMsg::SetPause(p) => format!("setpause {}", b(*p)),
                };
                format!("eng {} {} {}", sender, funds, body)
            }
            Op::Vamm { sender, v, m } => {
                let body = match m {
                    VMsg::SwapIn { dir, q, lim, cgo } => format!("swapin {} {} {} {}", if *dir == Dir::Add { "A" } else { "R" }, q, lim, b(*cgo)),
                    VMsg::SwapOut { dir, b: ba, lim } => format!("swapout {} {} {}", if *dir == Dir::Add { "A" } else { "R" }, ba, lim),
                    VMsg::Settle => "settle".to_string(),
                    VMsg::SetOpen(x) => format!("setopen {}", b(*x)),
                    VMsg::UpdCfg { hold, oi, toll, spread, fluct, engine, ifund, feed, twap } =>
                        format!("updcfg {} {} {} {} {} {} {} {} {}", o(hold), o(oi), o(toll), o(spread), o(fluct), o(engine), o(ifund), o(feed), o(twap)),
                    VMsg::UpdOwner(a) => format!("updowner {}", a),
                };
                format!("vamm {} {} {}", sender, v, body)
            }
            Op::If { sender, m } => {
                let body = match m {
                    IMsg::UpdOwner(a) => format!("updowner {}", a),
                    IMsg::Add(v) => format!("add {}", v),
                    IMsg::Rm(v) => format!("rm {}", v),
                    IMsg::Withdraw(a) => format!("withdraw {}", a),
                    IMsg::Shutdown => "shutdown".to_string(),
                };
                format!("if {} {}", sender, body)
            }
            Op::Fp { sender, m } => {
                let body = match m {
                    FMsg::UpdOwner(a) => format!("updowner {}", a),
                    FMsg::Add(t) => format!("add {}", t),
                    FMsg::Rm(t) => format!("rm {}", t),
                    FMsg::Send { tok, amt, to } => format!("send {} {} {}", tok, amt, to),
                };
                format!("fp {} {}", sender, body)
            }
            Op::Feed { sender, m } => {
                let body = match m {
                    PMsg::Append { price, t } => format!("append {} {}", price, t),
                    PMsg::AppendMulti { prices, times } => {
                        let mut s = format!("appendmulti {} {}", prices.len(), times.len());
                        for p in prices { write!(s, " {}", p).unwrap(); }
                        for t in times { write!(s, " {}", t).unwrap(); }
                        s
                    }
                    PMsg::UpdOwner(a) => format!("updowner {}", a),
                };
                format!("feed {} {}", sender, body)
            }
            Op::Tok { sender, m } => {
                let body = match m {
                    TMsg::Allow(a) => format!("allow {}", a),
                    TMsg::Mint { to, amt } => format!("mint {} {}", to, amt),
                    TMsg::Send { to, amt } => format!("send {} {}", to, amt),
                };
                format!("tok {} {}", sender, body)
            }
        }
    }

    pub fn parse(s: &str) -> Option<Op> {
        let t: Vec<&str> = s.split_whitespace().collect();
        let u = |i: usize| -> u128 { t[i].parse().unwrap() };
        let a = |i: usize| -> u32 { t[i].parse().unwrap() };
        let ou = |i: usize| -> Option<u128> { if t[i] == "-" { None } else { Some(t[i].parse().unwrap()) } };
        let oa = |i: usize| -> Option<u32> { if t[i] == "-" { None } else { Some(t[i].parse().unwrap()) } };
        let dir = |i: usize| if t[i] == "A" { Dir::Add } else { Dir::Rem };
        Some(match t[0] {
            "block" => Op::Block { dt: u(1) as u64, dh: u(2) as u64 },
            "eng" => {
                let sender = a(1);
                let funds = u(2);
                let m = match t[3] {
                    "updcfg" => EMsg::UpdCfg { owner: oa(4), ifund: oa(5), fpool: oa(6), init: ou(7), maint: ou(8), plr: ou(9), liqfee: ou(10) },
                    "updpauser" => EMsg::UpdPauser(a(4)),
                    "addwl" => EMsg::AddWl(a(4)),
                    "rmwl" => EMsg::RmWl(a(4)),
                    "open" => EMsg::Open { vamm: a(4), side: if t[5] == "B" { Side::Buy } else { Side::Sell }, margin: u(6), lev: u(7), limit: u(8) },
                    "close" => EMsg::Close { vamm: a(4), limit: u(5) },
                    "liq" => EMsg::Liq { vamm: a(4), trader: a(5), limit: u(6) },
                    "payfunding" => EMsg::PayFunding { vamm: a(4) },
                    "deposit" => EMsg::Deposit { vamm: a(4), amt: u(5) },
                    "withdraw" => EMsg::Withdraw { vamm: a(4), amt: u(5) },
                    "setpause" => EMsg::SetPause(t[4] == "1"),
                    _ => return None,
                };
                Op::Eng { sender, funds, m }
            }
            "vamm" => {
                let sender = a(1);
                let v = a(2);
                let m = match t[3] {
                    "swapin" => VMsg::SwapIn { dir: dir(4), q: u(5), lim: u(6), cgo: t[7] == "1" },
                    "swapout" => VMsg::SwapOut { dir: dir(4), b: u(5), lim: u(6) },
                    "settle" => VMsg::Settle,
                    "setopen" => VMsg::SetOpen(t[4] == "1"),
                    "updcfg" => VMsg::UpdCfg { hold: ou(4), oi: ou(5), toll: ou(6), spread: ou(7), fluct: ou(8), engine: oa(9), ifund: oa(10), feed: oa(11), twap: ou(12).map(|x| x as u64) },
                    "updowner" => VMsg::UpdOwner(a(4)),
                    _ => return None,
                };
                Op::Vamm { sender, v, m }
            }
            "if" => {
                let sender = a(1);
                let m = match t[2] {
                    "updowner" => IMsg::UpdOwner(a(3)),
                    "add" => IMsg::Add(a(3)),
                    "rm" => IMsg::Rm(a(3)),
                    "withdraw" => IMsg::Withdraw(u(3)),
                    "shutdown" => IMsg::Shutdown,
                    _ => return None,
                };
                Op::If { sender, m }
            }
            "fp" => {
                let sender = a(1);
                let m = match t[2] {
                    "updowner" => FMsg::UpdOwner(a(3)),
                    "add" => FMsg::Add(a(3)),
                    "rm" => FMsg::Rm(a(3)),
                    "send" => FMsg::Send { tok: a(3), amt: u(4), to: a(5) },
                    _ => return None,
                };
                Op::Fp { sender, m }
            }
            "feed" => {
                let sender = a(1);
                let m = match t[2] {
                    "append" => PMsg::Append { price: u(3), t: u(4) as u64 },
                    "appendmulti" => {
                        let np = u(3) as usize;
                        let nt = u(4) as usize;
                        PMsg::AppendMulti {
                            prices: (0..np).map(|i| u(5 + i)).collect(),
                            times: (0..nt).map(|i| u(5 + np + i) as u64).collect(),
                        }
                    }
                    "updowner" => PMsg::UpdOwner(a(3)),
                    _ => return None,
                };
                Op::Feed { sender, m }
            }
            "tok" => {
                let sender = a(1);
                let m = match t[2] {
                    "allow" => TMsg::Allow(u(3)),
                    "mint" => TMsg::Mint { to: a(3), amt: u(4) },
                    "send" => TMsg::Send { to: a(3), amt: u(4) },
                    _ => return None,
                };
                Op::Tok { sender, m }
            }
            _ => return None,
        })
    }
}

pub struct World {
    pub app: App,
    pub d: Deploy,
    pub engine: Addr,
    pub ifund: Addr,
    pub feepool: Addr,
    pub feed: Addr,
    pub token: Option<Addr>,
    pub vamms: Vec<Addr>,
    /// externally owned accounts that appear in observations (ids >= 20) plus the owner
    pub accounts: Vec<u32>,
    /// text of the last failed call's error (empty after a success): only ever used to tell WHICH refusal a
    /// refused call met where a property speaks about one particular refusal
    pub last_err: String,
}

fn c_cw20() -> Box<dyn Contract<Empty>> {
    Box::new(ContractWrapper::new_with_empty(fault::cw20_execute, cw20_base::contract::instantiate, cw20_base::contract::query))
}
fn c_vamm() -> Box<dyn Contract<Empty>> {
    Box::new(ContractWrapper::new_with_empty(fault::vamm_execute, margined_vamm::contract::instantiate, margined_vamm::contract::query))
}
fn c_ifund() -> Box<dyn Contract<Empty>> {
    Box::new(ContractWrapper::new_with_empty(fault::ifund_execute, margined_insurance_fund::contract::instantiate, margined_insurance_fund::contract::query))
}
fn c_feepool() -> Box<dyn Contract<Empty>> {
    Box::new(ContractWrapper::new_with_empty(margined_fee_pool::contract::execute, margined_fee_pool::contract::instantiate, margined_fee_pool::contract::query))
}
fn c_engine() -> Box<dyn Contract<Empty>> {
    Box::new(ContractWrapper::new_with_empty(margined_engine::contract::execute, margined_engine::contract::instantiate, margined_engine::contract::query).with_reply(margined_engine::contract::reply))
}
fn c_feed_real() -> Box<dyn Contract<Empty>> {
    Box::new(ContractWrapper::new_with_empty(margined_pricefeed::contract::execute, margined_pricefeed::contract::instantiate, margined_pricefeed::contract::query))
}
fn c_feed_mock() -> Box<dyn Contract<Empty>> {
    Box::new(ContractWrapper::new_with_empty(mock_pricefeed::contract::execute, mock_pricefeed::contract::instantiate, mock_pricefeed::contract::query))
}

pub fn eoa(id: u32) -> Addr {
    Addr::unchecked(format!("acct{:04}", id))
}

impl World {
    pub fn addr(&self, id: u32) -> Addr {
        match id {
            ID_ENGINE => self.engine.clone(),
            ID_IFUND => self.ifund.clone(),
            ID_FEEPOOL => self.feepool.clone(),
            ID_FEED => self.feed.clone(),
            ID_TOKEN => self.token.clone().unwrap_or_else(|| eoa(id)),
            x if x >= ID_VAMM0 && ((x - ID_VAMM0) as usize) < self.vamms.len() => self.vamms[(x - ID_VAMM0) as usize].clone(),
            // an account whose address is a proper suffix of account 21's ("acct0021"), and a forged vAMM
            // string that is vAMM 11's address followed by the missing prefix: sha3(vamm || trader) collides
            ID_SUFFIX_ACCOUNT => Addr::unchecked("0021"),
            ID_FORGED_VAMM => Addr::unchecked(format!("{}acct", self.vamms[0])),
            _ => eoa(id),
        }
    }
    pub fn id_of(&self, a: &Addr) -> u32 {
        if *a == self.engine { return ID_ENGINE; }
        if *a == self.ifund { return ID_IFUND; }
        if *a == self.feepool { return ID_FEEPOOL; }
        if *a == self.feed { return ID_FEED; }
        if Some(a.clone()) == self.token { return ID_TOKEN; }
        for (i, v) in self.vamms.iter().enumerate() { if v == a { return ID_VAMM0 + i as u32; } }
        let s = a.as_str();
        if s == "0021" { return ID_SUFFIX_ACCOUNT; }
        if s.starts_with("acct") { return s[4..].parse().unwrap_or(0); }
        0
    }
    pub fn collateral(&self) -> AssetInfo {
        match &self.token {
            Some(t) => AssetInfo::Token { contract_addr: t.clone() },
            None => AssetInfo::NativeToken { denom: NATIVE_DENOM.to_string() },
        }
    }
    /// token ids used by the fee pool: 0 = collateral, 1 = another native denom, 2 = a foreign cw20
    pub fn token_string(&self, id: u32) -> String {
        match id {
            0 => match &self.token { Some(t) => t.to_string(), None => NATIVE_DENOM.to_string() },
            1 => if self.token.is_some() { NATIVE_DENOM.to_string() } else { "ujunox".to_string() },
            _ => format!("foreigntoken{:02}", id),
        }
    }

    pub fn new(d: &Deploy, accounts: &[u32]) -> World {
        let owner = eoa(ID_OWNER);
        let mut app: App = AppBuilder::new().build(|_, _, _| {});
        app.set_block(BlockInfo { height: d.h0, time: Timestamp::from_seconds(d.t0), chain_id: "verif".to_string() });
        let token = if d.native { None } else {
            let id = app.store_code(c_cw20());
            Some(app.instantiate_contract(id, owner.clone(), &cw20_base::msg::InstantiateMsg {
                name: "collateral".to_string(), symbol: "COLL".to_string(), decimals: d.decimals,
                initial_balances: vec![] as Vec<Cw20Coin>,
                mint: Some(MinterResponse { minter: owner.to_string(), cap: None }), marketing: None,
            }, &[], "token", None).unwrap())
        };
        let fp_id = app.store_code(c_feepool());
        let feepool = app.instantiate_contract(fp_id, owner.clone(), &mf::InstantiateMsg {}, &[], "fee_pool", None).unwrap();
        // contract addresses are "contract<N>" in instantiation order: the insurance fund comes right after the engine
        let n_so_far = if d.native { 1 } else { 2 };
        let predicted_ifund = format!("contract{}", n_so_far + 1);
        let eng_id = app.store_code(c_engine());
        let engine = app.instantiate_contract(eng_id, owner.clone(), &me::InstantiateMsg {
            pauser: owner.to_string(), insurance_fund: predicted_ifund.clone(), fee_pool: feepool.to_string(),
            eligible_collateral: match &token { Some(t) => t.to_string(), None => NATIVE_DENOM.to_string() },
            initial_margin_ratio: Uint128::new(d.init), maintenance_margin_ratio: Uint128::new(d.maint), liquidation_fee: Uint128::new(d.liqfee),
        }, &[], "engine", None).expect("engine instantiate");
        let if_id = app.store_code(c_ifund());
        let ifund = app.instantiate_contract(if_id, owner.clone(), &mi::InstantiateMsg { engine: engine.to_string() }, &[], "insurance_fund", None).unwrap();
        assert_eq!(ifund.to_string(), predicted_ifund);
        let feed = if d.real_feed {
            let id = app.store_code(c_feed_real());
            app.instantiate_contract(id, owner.clone(), &mp::InstantiateMsg { oracle_hub_contract: "hub".to_string() }, &[], "feed", None).unwrap()
        } else {
            let id = app.store_code(c_feed_mock());
            app.instantiate_contract(id, owner.clone(), &mock_pricefeed::contract::InstantiateMsg { oracle_hub_contract: "hub".to_string() }, &[], "feed", None).unwrap()
        };
        let vamm_id = app.store_code(c_vamm());
        let mut vamms = vec![];
        for (i, v) in d.vamms.iter().enumerate() {
            let a = app.instantiate_contract(vamm_id, owner.clone(), &mv::InstantiateMsg {
                decimals: v.decimals, pricefeed: feed.to_string(), margin_engine: Some(engine.to_string()),
                insurance_fund: Some(ifund.to_string()), quote_asset: "USD".to_string(), base_asset: ORACLE_KEY.to_string(),
                quote_asset_reserve: Uint128::new(v.q), base_asset_reserve: Uint128::new(v.b), funding_period: v.fperiod,
                toll_ratio: Uint128::new(v.toll), spread_ratio: Uint128::new(v.spread), fluctuation_limit_ratio: Uint128::new(v.fluct),
            }, &[], format!("vamm{}", i), None).expect("vamm instantiate");
            vamms.push(a);
        }
        let mut accts = vec![ID_OWNER];
        accts.extend_from_slice(accounts);
        World { app, d: d.clone(), engine, ifund, feepool, feed, token, vamms, accounts: accts, last_err: String::new() }
    }

    pub fn deploy_lines(&self) -> Vec<String> {
        let d = &self.d;
        let mut out = vec![format!(
            "DEPLOY native={} dec={} realfeed={} init={} maint={} liqfee={} t0={} h0={}",
            b(d.native), d.decimals, b(d.real_feed), d.init, d.maint, d.liqfee, d.t0, d.h0)];
        for (i, v) in d.vamms.iter().enumerate() {
            out.push(format!("VAMM {} dec={} q={} b={} fperiod={} toll={} spread={} fluct={}",
                ID_VAMM0 + i as u32, v.decimals, v.q, v.b, v.fperiod, v.toll, v.spread, v.fluct));
        }
        out.push(format!("ACCOUNTS {}", self.accounts.iter().map(|a| a.to_string()).collect::<Vec<_>>().join(" ")));
        out
    }

    fn exec(&mut self, sender: Addr, contract: Addr, msg: cosmwasm_std::Binary, funds: Vec<Coin>) -> bool {
        let app = &mut self.app;
        let r = catch_unwind(AssertUnwindSafe(|| {
            app.execute(sender, CosmosMsg::Wasm(WasmMsg::Execute { contract_addr: contract.to_string(), msg, funds }))
        }));
        if let (Ok(Err(e)), true) = (&r, std::env::var("VERIF_DEBUG").is_ok()) { eprintln!("err: {}", format!("{:?}", e).replace("\n", " ")); }
        self.last_err = match &r { Ok(Err(e)) => format!("{:?}", e), Err(_) => "panic".to_string(), _ => String::new() };
        matches!(r, Ok(Ok(_)))
    }

    /// applies one operation to the real contracts; true = the transaction succeeded
    pub fn apply(&mut self, op: &Op) -> bool {
        match op {
            Op::Block { dt, dh } => {
                let mut bi = self.app.block_info();
                bi.height += *dh;
                // block times carry a sub-second part, as on a real chain (the contracts - and the model - work in whole
                // seconds; anything that starts to depend on the fraction shows up as a divergence).  It is a function
                // of (second, height), so a history replays identically, and it grows with the height within one second.
                let secs = bi.time.seconds() + *dt;
                let nanos = (secs.wrapping_mul(2_654_435_761) % 500_000_000) + (bi.height % 1000) * 400_000;
                bi.time = cosmwasm_std::Timestamp::from_nanos(secs * 1_000_000_000 + nanos);
                self.app.set_block(bi);
                true
            }
            Op::Eng { sender, funds, m } => {
                let ad = |id: &u32| self.addr(*id).to_string();
                let msg = match m {
                    EMsg::UpdCfg { owner, ifund, fpool, init, maint, plr, liqfee } => me::ExecuteMsg::UpdateConfig {
                        owner: owner.as_ref().map(ad), insurance_fund: ifund.as_ref().map(ad), fee_pool: fpool.as_ref().map(ad),
                        initial_margin_ratio: init.map(Uint128::new), maintenance_margin_ratio: maint.map(Uint128::new),
                        partial_liquidation_ratio: plr.map(Uint128::new), liquidation_fee: liqfee.map(Uint128::new) },
                    EMsg::UpdPauser(a) => me::ExecuteMsg::UpdatePauser { pauser: ad(a) },
                    EMsg::AddWl(a) => me::ExecuteMsg::AddWhitelist { address: ad(a) },
                    EMsg::RmWl(a) => me::ExecuteMsg::RemoveWhitelist { address: ad(a) },
                    EMsg::Open { vamm, side, margin, lev, limit } => me::ExecuteMsg::OpenPosition {
                        vamm: ad(vamm), side: if *side == Side::Buy { me::Side::Buy } else { me::Side::Sell },
                        margin_amount: Uint128::new(*margin), leverage: Uint128::new(*lev), base_asset_limit: Uint128::new(*limit) },
                    EMsg::Close { vamm, limit } => me::ExecuteMsg::ClosePosition { vamm: ad(vamm), quote_asset_limit: Uint128::new(*limit) },
                    EMsg::Liq { vamm, trader, limit } => me::ExecuteMsg::Liquidate { vamm: ad(vamm), trader: ad(trader), quote_asset_limit: Uint128::new(*limit) },
                    EMsg::PayFunding { vamm } => me::ExecuteMsg::PayFunding { vamm: ad(vamm) },
                    EMsg::Deposit { vamm, amt } => me::ExecuteMsg::DepositMargin { vamm: ad(vamm), amount: Uint128::new(*amt) },
                    EMsg::Withdraw { vamm, amt } => me::ExecuteMsg::WithdrawMargin { vamm: ad(vamm), amount: Uint128::new(*amt) },
                    EMsg::SetPause(p) => me::ExecuteMsg::SetPause { pause: *p },
                };
                let f = if *funds > 0 { vec![Coin::new(*funds, NATIVE_DENOM)] } else { vec![] };
                let (s, c) = (self.addr(*sender), self.engine.clone());
                self.exec(s, c, to_binary(&msg).unwrap(), f)
            }
            Op::Vamm { sender, v, m } => {
                let ad = |id: &u32| self.addr(*id).to_string();
                let d = |x: &Dir| if *x == Dir::Add { mv::Direction::AddToAmm } else { mv::Direction::RemoveFromAmm };
                let msg = match m {
                    VMsg::SwapIn { dir, q, lim, cgo } => mv::ExecuteMsg::SwapInput { direction: d(dir), quote_asset_amount: Uint128::new(*q), base_asset_limit: Uint128::new(*lim), can_go_over_fluctuation: *cgo },
                    VMsg::SwapOut { dir, b, lim } => mv::ExecuteMsg::SwapOutput { direction: d(dir), base_asset_amount: Uint128::new(*b), quote_asset_limit: Uint128::new(*lim) },
                    VMsg::Settle => mv::ExecuteMsg::SettleFunding {},
                    VMsg::SetOpen(x) => mv::ExecuteMsg::SetOpen { open: *x },
                    VMsg::UpdCfg { hold, oi, toll, spread, fluct, engine, ifund, feed, twap } => mv::ExecuteMsg::UpdateConfig {
                        base_asset_holding_cap: hold.map(Uint128::new), open_interest_notional_cap: oi.map(Uint128::new),
                        toll_ratio: toll.map(Uint128::new), spread_ratio: spread.map(Uint128::new), fluctuation_limit_ratio: fluct.map(Uint128::new),
                        margin_engine: engine.as_ref().map(ad), insurance_fund: ifund.as_ref().map(ad), pricefeed: feed.as_ref().map(ad),
                        spot_price_twap_interval: *twap },
                    VMsg::UpdOwner(a) => mv::ExecuteMsg::UpdateOwner { owner: ad(a) },
                };
                let (s, c) = (self.addr(*sender), self.addr(*v));
                if self.id_of(&c) < ID_VAMM0 { return false; }
                self.exec(s, c, to_binary(&msg).unwrap(), vec![])
            }
            Op::If { sender, m } => {
                let ad = |id: &u32| self.addr(*id).to_string();
                let msg = match m {
                    IMsg::UpdOwner(a) => mi::ExecuteMsg::UpdateOwner { owner: ad(a) },
                    IMsg::Add(v) => mi::ExecuteMsg::AddVamm { vamm: ad(v) },
                    IMsg::Rm(v) => mi::ExecuteMsg::RemoveVamm { vamm: ad(v) },
                    IMsg::Withdraw(a) => mi::ExecuteMsg::Withdraw { token: self.collateral(), amount: Uint128::new(*a) },
                    IMsg::Shutdown => mi::ExecuteMsg::ShutdownVamms {},
                };
                let (s, c) = (self.addr(*sender), self.ifund.clone());
                self.exec(s, c, to_binary(&msg).unwrap(), vec![])
            }
            Op::Fp { sender, m } => {
                let ad = |id: &u32| self.addr(*id).to_string();
                let msg = match m {
                    FMsg::UpdOwner(a) => mf::ExecuteMsg::UpdateOwner { owner: ad(a) },
                    FMsg::Add(t) => mf::ExecuteMsg::AddToken { token: self.token_string(*t) },
                    FMsg::Rm(t) => mf::ExecuteMsg::RemoveToken { token: self.token_string(*t) },
                    FMsg::Send { tok, amt, to } => mf::ExecuteMsg::SendToken { token: self.token_string(*tok), amount: Uint128::new(*amt), recipient: ad(to) },
                };
                let (s, c) = (self.addr(*sender), self.feepool.clone());
                self.exec(s, c, to_binary(&msg).unwrap(), vec![])
            }
            Op::Feed { sender, m } => {
                let ad = |id: &u32| self.addr(*id).to_string();
                let key = ORACLE_KEY.to_string();
                let bin = if self.d.real_feed {
                    to_binary(&match m {
                        PMsg::Append { price, t } => mp::ExecuteMsg::AppendPrice { key, price: Uint128::new(*price), timestamp: *t },
                        PMsg::AppendMulti { prices, times } => mp::ExecuteMsg::AppendMultiplePrice { key, prices: prices.iter().map(|p| Uint128::new(*p)).collect(), timestamps: times.clone() },
                        PMsg::UpdOwner(a) => mp::ExecuteMsg::UpdateOwner { owner: ad(a) },
                    }).unwrap()
                } else {
                    use mock_pricefeed::contract::ExecuteMsg as MX;
                    to_binary(&match m {
                        PMsg::Append { price, t } => MX::AppendPrice { key, price: Uint128::new(*price), timestamp: *t },
                        PMsg::AppendMulti { prices, times } => MX::AppendMultiplePrice { key, prices: prices.iter().map(|p| Uint128::new(*p)).collect(), timestamps: times.clone() },
                        PMsg::UpdOwner(a) => MX::UpdateConfig { owner: Some(ad(a)) },
                    }).unwrap()
                };
                let (s, c) = (self.addr(*sender), self.feed.clone());
                self.exec(s, c, bin, vec![])
            }
            Op::Tok { sender, m } => {
                let s = self.addr(*sender);
                match (&self.token, m) {
                    (Some(t), TMsg::Allow(a)) => {
                        let msg = Cw20ExecuteMsg::IncreaseAllowance { spender: self.engine.to_string(), amount: Uint128::new(*a), expires: None };
                        let t = t.clone();
                        self.exec(s, t, to_binary(&msg).unwrap(), vec![])
                    }
                    (Some(t), TMsg::Mint { to, amt }) => {
                        // set-up only: minted by the token's minter (the owner) whoever the nominal sender is
                        let msg = Cw20ExecuteMsg::Mint { recipient: self.addr(*to).to_string(), amount: Uint128::new(*amt) };
                        let t = t.clone();
                        self.exec(eoa(ID_OWNER), t, to_binary(&msg).unwrap(), vec![])
                    }
                    (Some(t), TMsg::Send { to, amt }) => {
                        let msg = Cw20ExecuteMsg::Transfer { recipient: self.addr(*to).to_string(), amount: Uint128::new(*amt) };
                        let t = t.clone();
                        self.exec(s, t, to_binary(&msg).unwrap(), vec![])
                    }
                    (None, TMsg::Allow(_)) => false,
                    (None, TMsg::Mint { to, amt }) => {
                        let to = self.addr(*to);
                        let amt = *amt;
                        let r = catch_unwind(AssertUnwindSafe(|| {
                            self.app.sudo(cw_multi_test::SudoMsg::Bank(cw_multi_test::BankSudo::Mint { to_address: to.to_string(), amount: vec![Coin::new(amt, NATIVE_DENOM)] }))
                        }));
                        matches!(r, Ok(Ok(_)))
                    }
                    (None, TMsg::Send { to, amt }) => {
                        let to = self.addr(*to);
                        let amt = *amt;
                        let app = &mut self.app;
                        let r = catch_unwind(AssertUnwindSafe(|| {
                            app.execute(s, CosmosMsg::Bank(BankMsg::Send { to_address: to.to_string(), amount: vec![Coin::new(amt, NATIVE_DENOM)] }))
                        }));
                        matches!(r, Ok(Ok(_)))
                    }
                }
            }
        }
    }

    // ------------------------------------------------------------------ observation
    pub fn balance(&self, id: u32) -> u128 {
        let a = self.addr(id);
        match &self.token {
            None => self.app.wrap().query_balance(a, NATIVE_DENOM).map(|c| c.amount.u128()).unwrap_or(0),
            Some(t) => {
                let r: cw20::BalanceResponse = self.app.wrap().query_wasm_smart(t, &Cw20QueryMsg::Balance { address: a.to_string() }).unwrap();
                r.balance.u128()
            }
        }
    }
    pub fn allowance(&self, id: u32) -> Option<u128> {
        let t = self.token.as_ref()?;
        // distinguish "no entry" from zero through the raw storage key of cw20-base's ALLOWANCES map
        let r: cw20::AllowanceResponse = self.app.wrap().query_wasm_smart(t, &Cw20QueryMsg::Allowance { owner: self.addr(id).to_string(), spender: self.engine.to_string() }).ok()?;
        let dump = self.app.dump_wasm_raw(t);
        let owner = self.addr(id);
        let has = dump.iter().any(|(k, _)| {
            let ks = String::from_utf8_lossy(k);
            ks.contains("allowance") && !ks.contains("allowance_spender") && ks.contains(owner.as_str()) && ks.contains(self.engine.as_str())
        });
        if has { Some(r.allowance.u128()) } else { None }
    }

    pub fn q<T: serde::de::DeserializeOwned>(&self, c: &Addr, msg: &impl serde::Serialize) -> Option<T> {
        let app = &self.app;
        let r = catch_unwind(AssertUnwindSafe(|| {
            app.wrap().query::<T>(&QueryRequest::Wasm(WasmQuery::Smart { contract_addr: c.to_string(), msg: to_binary(msg).unwrap() }))
        }));
        match r { Ok(Ok(v)) => Some(v), _ => None }
    }

    pub fn raw_singleton<T: serde::de::DeserializeOwned>(&self, c: &Addr, key: &[u8]) -> Option<T> {
        let mut k = vec![0u8, key.len() as u8];
        k.extend_from_slice(key);
        let v = self.app.wrap().query_wasm_raw(c, k).ok()??;
        cosmwasm_std::from_slice(&v).ok()
    }
    fn raw_has_singleton(&self, c: &Addr, key: &[u8]) -> bool {
        let mut k = vec![0u8, key.len() as u8];
        k.extend_from_slice(key);
        matches!(self.app.wrap().query_wasm_raw(c, k), Ok(Some(v)) if !v.is_empty())
    }

    pub fn position(&self, v: u32, t: u32) -> Option<me::Position> {
        self.q(&self.engine, &me::QueryMsg::Position { vamm: self.addr(v).to_string(), trader: self.addr(t).to_string() })
    }

    /// the observation: one `S` line per group, `key=value` tokens
    pub fn observe(&self) -> Vec<String> {
        let mut lines = vec![];
        let bi = self.app.block_info();
        let mut s = format!("S env.time={} env.height={}", bi.time.seconds(), bi.height);
        for id in [ID_ENGINE, ID_IFUND, ID_FEEPOOL].iter().chain(self.accounts.iter()) {
            write!(s, " bal.{}={}", id, self.balance(*id)).unwrap();
        }
        if self.token.is_some() {
            for id in self.accounts.iter() {
                match self.allowance(*id) {
                    Some(a) => write!(s, " allow.{}={}", id, a).unwrap(),
                    None => write!(s, " allow.{}=none", id).unwrap(),
                }
            }
        }
        lines.push(s);
        // engine
        let mut s = String::from("S");
        let cfg: me::ConfigResponse = self.q(&self.engine, &me::QueryMsg::Config {}).unwrap();
        write!(s, " e.owner={} e.ifund={} e.feepool={} e.dec={} e.init={} e.maint={} e.plr={} e.liqfee={}",
            self.id_of(&cfg.owner), self.id_of(&cfg.insurance_fund), self.id_of(&cfg.fee_pool), cfg.decimals,
            cfg.initial_margin_ratio, cfg.maintenance_margin_ratio, cfg.partial_liquidation_ratio, cfg.liquidation_fee).unwrap();
        let st: RawEngineState = self.raw_singleton(&self.engine, b"state").unwrap();
        write!(s, " e.oi={} e.baddebt={} e.pause={}", st.open_interest_notional, st.prepaid_bad_debt, b(st.pause)).unwrap();
        write!(s, " e.tmpswap={} e.sentfunds={} e.tmpliq={}",
            b(self.raw_has_singleton(&self.engine, b"tmp-swap")), b(self.raw_has_singleton(&self.engine, b"sent-funds")),
            b(self.raw_has_singleton(&self.engine, b"tmp-liquidator"))).unwrap();
        let pauser: Option<me::PauserResponse> = self.q(&self.engine, &me::QueryMsg::GetPauser {});
        write!(s, " e.pauser={}", pauser.map(|p| self.id_of(&p.pauser).to_string()).unwrap_or("none".into())).unwrap();
        let wl: Option<cw_controllers::HooksResponse> = self.q(&self.engine, &me::QueryMsg::GetWhitelist {});
        write!(s, " e.wl={}", wl.map(|h| {
            let v: Vec<String> = h.hooks.iter().map(|a| self.id_of(&Addr::unchecked(a)).to_string()).collect();
            if v.is_empty() { "[]".to_string() } else { v.join(",") }
        }).unwrap_or("err".into())).unwrap();
        lines.push(s);
        // vAMMs
        for (i, va) in self.vamms.iter().enumerate() {
            let vid = ID_VAMM0 + i as u32;
            let mut s = String::from("S");
            let c: mv::ConfigResponse = self.q(va, &mv::QueryMsg::Config {}).unwrap();
            let stt: mv::StateResponse = self.q(va, &mv::QueryMsg::State {}).unwrap();
            let ow: Option<mv::OwnerResponse> = self.q(va, &mv::QueryMsg::GetOwner {});
            write!(s, " v{0}.open={1} v{0}.q={2} v{0}.b={3} v{0}.total={4} v{0}.frate={5} v{0}.nextfund={6}", vid,
                b(stt.open), stt.quote_asset_reserve, stt.base_asset_reserve, stt.total_position_size, stt.funding_rate, stt.next_funding_time).unwrap();
            write!(s, " v{0}.holdcap={1} v{0}.oicap={2} v{0}.toll={3} v{0}.spread={4} v{0}.fluct={5} v{0}.dec={6} v{0}.twapint={7} v{0}.engine={8} v{0}.ifund={9} v{0}.feed={10} v{0}.owner={11}", vid,
                c.base_asset_holding_cap, c.open_interest_notional_cap, c.toll_ratio, c.spread_ratio, c.fluctuation_limit_ratio, c.decimals,
                c.spot_price_twap_interval, self.id_of(&c.margin_engine), self.id_of(&c.insurance_fund), self.id_of(&c.pricefeed),
                ow.map(|o| self.id_of(&o.owner).to_string()).unwrap_or("none".into())).unwrap();
            let snapn: Option<u64> = self.raw_singleton(va, b"reserve_snapshot_counter");
            write!(s, " v{}.snaps={}", vid, snapn.unwrap_or(0)).unwrap();
            for (j, nm) in [(0u64, "s0"), (1u64, "s1")] {
                let n = snapn.unwrap_or(0);
                let snap: Option<RawSnapshot> = if n > j {
                    let mut key = vec![0u8, 16u8];
                    key.extend_from_slice(b"reserve_snapshot");
                    key.extend_from_slice(&(n - j).to_be_bytes());
                    self.app.wrap().query_wasm_raw(va, key).ok().flatten().and_then(|v| cosmwasm_std::from_slice(&v).ok())
                } else { None };
                match snap {
                    Some(sn) => write!(s, " v{0}.{1}={2}/{3}/{4}/{5}", vid, nm, sn.quote_asset_reserve, sn.base_asset_reserve, sn.timestamp.seconds(), sn.block_height).unwrap(),
                    None => write!(s, " v{}.{}=none", vid, nm).unwrap(),
                }
            }
            let fmt_u = |x: Option<Uint128>| x.map(|v| v.to_string()).unwrap_or("err".into());
            write!(s, " v{}.spot={}", vid, fmt_u(self.q(va, &mv::QueryMsg::SpotPrice {}))).unwrap();
            write!(s, " v{}.twap={}", vid, fmt_u(self.q(va, &mv::QueryMsg::TwapPrice { interval: c.spot_price_twap_interval }))).unwrap();
            write!(s, " v{}.twap15={}", vid, fmt_u(self.q(va, &mv::QueryMsg::TwapPrice { interval: 900 }))).unwrap();
            let osl: Option<bool> = self.q(va, &mv::QueryMsg::IsOverSpreadLimit {});
            write!(s, " v{}.overspread={}", vid, osl.map(|x| b(x).to_string()).unwrap_or("err".into())).unwrap();
            write!(s, " v{}.uprice={}", vid, fmt_u(self.q(va, &mv::QueryMsg::UnderlyingPrice {}))).unwrap();
            write!(s, " v{}.utwap={}", vid, fmt_u(self.q(va, &mv::QueryMsg::UnderlyingTwapPrice { interval: c.spot_price_twap_interval }))).unwrap();
            let cpf: Option<Integer> = self.q(&self.engine, &me::QueryMsg::CumulativePremiumFraction { vamm: va.to_string() });
            write!(s, " v{}.cpf={}", vid, cpf.map(|x| x.to_string()).unwrap_or("err".into())).unwrap();
            // engine's per-vAMM record (raw bucket read)
            let mut key = vec![0u8, 8u8];
            key.extend_from_slice(b"vamm-map");
            key.extend_from_slice(va.as_bytes());
            let vm: Option<RawVammMap> = self.app.wrap().query_wasm_raw(&self.engine, key).ok().flatten().and_then(|v| cosmwasm_std::from_slice(&v).ok());
            write!(s, " v{}.lrb={} v{}.ncpf={}", vid, vm.as_ref().map(|m| m.last_restriction_block).unwrap_or(0), vid, vm.as_ref().map(|m| m.cumulative_premium_fractions.len()).unwrap_or(0)).unwrap();
            lines.push(s);
            // positions
            for t in self.accounts.iter() {
                let p = self.position(vid, *t);
                let mut s = String::from("S");
                let k = format!("p{}.{}", vid, t);
                match p {
                    None => write!(s, " {}=none", k).unwrap(),
                    Some(p) => {
                        write!(s, " {0}=some {0}.dir={1} {0}.size={2} {0}.margin={3} {0}.notional={4} {0}.lupf={5} {0}.block={6}", k,
                            if p.direction == mv::Direction::AddToAmm { "A" } else { "R" }, p.size, p.margin, p.notional, p.last_updated_premium_fraction, p.block_number).unwrap();
                        let (va_s, tr_s) = (va.to_string(), self.addr(*t).to_string());
                        let mr: Option<Integer> = self.q(&self.engine, &me::QueryMsg::MarginRatio { vamm: va_s.clone(), trader: tr_s.clone() });
                        write!(s, " {}.mr={}", k, mr.map(|x| x.to_string()).unwrap_or("err".into())).unwrap();
                        let fc: Option<Integer> = self.q(&self.engine, &me::QueryMsg::FreeCollateral { vamm: va_s.clone(), trader: tr_s.clone() });
                        write!(s, " {}.fc={}", k, fc.map(|x| x.to_string()).unwrap_or("err".into())).unwrap();
                        for (nm, opt) in [("spot", me::PnlCalcOption::SpotPrice), ("twap", me::PnlCalcOption::Twap), ("oracle", me::PnlCalcOption::Oracle)] {
                            let r: Option<me::PositionUnrealizedPnlResponse> = self.q(&self.engine, &me::QueryMsg::UnrealizedPnl { vamm: va_s.clone(), trader: tr_s.clone(), calc_option: opt });
                            match r {
                                Some(r) => write!(s, " {0}.pn_{1}={2} {0}.pnl_{1}={3}", k, nm, r.position_notional, r.unrealized_pnl).unwrap(),
                                None => write!(s, " {0}.pn_{1}=err {0}.pnl_{1}=err", k, nm).unwrap(),
                            }
                        }
                        let pw: Option<me::Position> = self.q(&self.engine, &me::QueryMsg::PositionWithFundingPayment { vamm: va_s, trader: tr_s });
                        write!(s, " {}.mwf={}", k, pw.map(|x| x.margin.to_string()).unwrap_or("err".into())).unwrap();
                    }
                }
                lines.push(s);
            }
        }
        // insurance fund, fee pool, feed
        let mut s = String::from("S");
        let ow: Option<mi::OwnerResponse> = self.q(&self.ifund, &mi::QueryMsg::GetOwner {});
        write!(s, " if.owner={}", ow.map(|o| self.id_of(&o.owner).to_string()).unwrap_or("none".into())).unwrap();
        let all: Option<mi::AllVammResponse> = self.q(&self.ifund, &mi::QueryMsg::GetAllVamm { limit: None });
        write!(s, " if.vamms={}", match all { None => "err".to_string(), Some(a) => if a.vamm_list.is_empty() { "[]".to_string() } else { a.vamm_list.iter().map(|x| self.id_of(x).to_string()).collect::<Vec<_>>().join(",") } }).unwrap();
        for i in 0..self.vamms.len() {
            let r: Option<mi::VammResponse> = self.q(&self.ifund, &mi::QueryMsg::IsVamm { vamm: self.vamms[i].to_string() });
            write!(s, " if.isvamm.{}={}", ID_VAMM0 + i as u32, r.map(|x| b(x.is_vamm).to_string()).unwrap_or("err".into())).unwrap();
        }
        let ow: Option<mf::OwnerResponse> = self.q(&self.feepool, &mf::QueryMsg::GetOwner {});
        write!(s, " fp.owner={}", ow.map(|o| self.id_of(&o.owner).to_string()).unwrap_or("none".into())).unwrap();
        let tl: Option<mf::AllTokenResponse> = self.q(&self.feepool, &mf::QueryMsg::GetTokenList { limit: None });
        write!(s, " fp.tokens={}", match tl { None => "err".to_string(), Some(a) => if a.token_list.is_empty() { "[]".to_string() } else {
            a.token_list.iter().map(|x| { let xs = x.to_string(); (0..3u32).find(|i| self.token_string(*i) == xs).map(|i| i.to_string()).unwrap_or("?".into()) }).collect::<Vec<_>>().join(",") } }).unwrap();
        if self.d.real_feed {
            let ow: Option<mp::OwnerResponse> = self.q(&self.feed, &mp::QueryMsg::GetOwner {});
            write!(s, " feed.owner={}", ow.map(|o| self.id_of(&o.owner).to_string()).unwrap_or("none".into())).unwrap();
            let pd: Option<RawPriceData> = self.q(&self.feed, &mp::QueryMsg::GetPrice { key: ORACLE_KEY.to_string() });
            match pd {
                Some(p) => write!(s, " feed.round={} feed.price={} feed.time={}", p.round_id, p.price, p.timestamp.seconds()).unwrap(),
                None => write!(s, " feed.round=err feed.price=err feed.time=err").unwrap(),
            }
        } else {
            let c: Option<mock_pricefeed::contract::ConfigResponse> = self.q(&self.feed, &mock_pricefeed::contract::QueryMsg::Config {});
            write!(s, " feed.owner={}", c.map(|o| self.id_of(&o.owner).to_string()).unwrap_or("none".into())).unwrap();
            let p: Option<Uint128> = self.q(&self.feed, &mock_pricefeed::contract::QueryMsg::GetPrice { key: ORACLE_KEY.to_string() });
            write!(s, " feed.price={}", p.map(|x| x.to_string()).unwrap_or("err".into())).unwrap();
        }
        lines.push(s);
        lines
    }

    pub fn snapshot(&self, va: &Addr, idx: u64) -> Option<RawSnapshot> {
        let mut key = vec![0u8, 16u8];
        key.extend_from_slice(b"reserve_snapshot");
        key.extend_from_slice(&idx.to_be_bytes());
        self.app.wrap().query_wasm_raw(va, key).ok().flatten().and_then(|v| cosmwasm_std::from_slice(&v).ok())
    }
    /// the integer price band [lower, upper] around the price at the end of the previous block
    pub fn band(&self, v: u32) -> Option<(u128, u128)> {
        let va = self.addr(v);
        let c: mv::ConfigResponse = self.q(&va, &mv::QueryMsg::Config {})?;
        let n: u64 = self.raw_singleton(&va, b"reserve_snapshot_counter")?;
        let mut s = self.snapshot(&va, n)?;
        if s.block_height == self.app.block_info().height && n > 1 { s = self.snapshot(&va, n - 1)?; }
        let d = c.decimals.u128();
        let l = c.fluctuation_limit_ratio.u128();
        let r = s.quote_asset_reserve.u128().checked_mul(d)? / s.base_asset_reserve.u128();
        // (a stored limit above one - which only a broken validation lets through - gives a band from zero)
        Some((r.checked_mul(d.saturating_sub(l))? / d, r.checked_mul(d.checked_add(l)?)? / d))
    }

    /// full raw storage of every contract plus every observed balance: used by the C08 monitor
    pub fn fingerprint(&self) -> String {
        use std::collections::hash_map::DefaultHasher;
        use std::hash::{Hash, Hasher};
        let mut h = DefaultHasher::new();
        let mut cs = vec![self.engine.clone(), self.ifund.clone(), self.feepool.clone(), self.feed.clone()];
        cs.extend(self.vamms.iter().cloned());
        if let Some(t) = &self.token { cs.push(t.clone()); }
        for c in cs.iter() {
            let mut d = self.app.dump_wasm_raw(c);
            d.sort();
            d.hash(&mut h);
        }
        for id in [ID_ENGINE, ID_IFUND, ID_FEEPOOL].iter().chain(self.accounts.iter()) {
            self.balance(*id).hash(&mut h);
        }
        format!("{:016x}", h.finish())
    }
}
