//! `replay`: re-executes a recorded case (integer lines or a world history prefix) on the
//! implementation and writes a fresh trace of it.
use crate::engine::Tracer;
use crate::world::*;
use std::io::Write;

fn kv(tok: &str) -> (&str, &str) {
    match tok.find('=') { Some(i) => (&tok[..i], &tok[i + 1..]), None => (tok, "") }
}

pub fn run(out: &mut dyn Write, input: &str) {
    let text = std::fs::read_to_string(input).expect("cannot read replay input");
    let mut deploy: Option<Deploy> = None;
    let mut accounts: Vec<u32> = vec![];
    let mut world: Option<World> = None;
    let mut pending_fault: i64 = -1;
    let mut lines_int: Vec<String> = vec![];
    let mut tr_n = 0u64;
    for line in text.lines() {
        let toks: Vec<&str> = line.split_whitespace().collect();
        if toks.is_empty() { continue; }
        match toks[0] {
            "I" => lines_int.push(line.to_string()),
            "DEPLOY" => {
                let mut d = Deploy { native: false, decimals: 6, real_feed: false, init: 0, maint: 0, liqfee: 0, vamms: vec![], t0: 0, h0: 0 };
                for t in &toks[1..] {
                    let (k, v) = kv(t);
                    match k {
                        "native" => d.native = v == "1", "dec" => d.decimals = v.parse().unwrap(), "realfeed" => d.real_feed = v == "1",
                        "init" => d.init = v.parse().unwrap(), "maint" => d.maint = v.parse().unwrap(), "liqfee" => d.liqfee = v.parse().unwrap(),
                        "t0" => d.t0 = v.parse().unwrap(), "h0" => d.h0 = v.parse().unwrap(), _ => {}
                    }
                }
                deploy = Some(d);
            }
            "VAMM" => {
                let mut v = VammInit { decimals: 6, q: 0, b: 0, fperiod: 3600, toll: 0, spread: 0, fluct: 0 };
                for t in &toks[2..] {
                    let (k, x) = kv(t);
                    match k {
                        "dec" => v.decimals = x.parse().unwrap(), "q" => v.q = x.parse().unwrap(), "b" => v.b = x.parse().unwrap(),
                        "fperiod" => v.fperiod = x.parse().unwrap(), "toll" => v.toll = x.parse().unwrap(), "spread" => v.spread = x.parse().unwrap(),
                        "fluct" => v.fluct = x.parse().unwrap(), _ => {}
                    }
                }
                deploy.as_mut().unwrap().vamms.push(v);
            }
            "ACCOUNTS" => { accounts = toks[1..].iter().map(|x| x.parse().unwrap()).filter(|x| *x != ID_OWNER).collect(); }
            "F" => { pending_fault = toks[1].parse().unwrap(); }
            "OP" => {
                if world.is_none() {
                    let w = World::new(deploy.as_ref().expect("OP before DEPLOY"), &accounts);
                    writeln!(out, "HISTORY replay").unwrap();
                    for l in w.deploy_lines() { writeln!(out, "{}", l).unwrap(); }
                    world = Some(w);
                }
                let rest = toks[2..].join(" ");
                let op = Op::parse(&rest).expect("cannot parse op");
                let mut tr = Tracer { out, n: tr_n, observe_every_op: true };
                tr.step_f(world.as_mut().unwrap(), &op, pending_fault);
                tr_n = tr.n;
                pending_fault = -1;
            }
            _ => {}
        }
    }
    if world.is_some() { writeln!(out, "END").unwrap(); }
    if !lines_int.is_empty() { crate::integer::replay(out, &lines_int); }
}
