//! SplitMix64: the only source of randomness in the harness (seeded by VERIF_SEED).
#[derive(Clone)]
pub struct Rng(pub u64);

impl Rng {
    pub fn new(seed: u64) -> Self {
        Rng(seed.wrapping_mul(0x9E3779B97F4A7C15).wrapping_add(0x1234_5678_9abc_def1))
    }
    pub fn next(&mut self) -> u64 {
        self.0 = self.0.wrapping_add(0x9E3779B97F4A7C15);
        let mut z = self.0;
        z = (z ^ (z >> 30)).wrapping_mul(0xBF58476D1CE4E5B9);
        z = (z ^ (z >> 27)).wrapping_mul(0x94D049BB133111EB);
        z ^ (z >> 31)
    }
    pub fn below(&mut self, n: u64) -> u64 {
        if n == 0 { 0 } else { self.next() % n }
    }
    pub fn range(&mut self, lo: u64, hi: u64) -> u64 {
        lo + self.below(hi - lo + 1)
    }
    pub fn chance(&mut self, num: u64, den: u64) -> bool {
        self.below(den) < num
    }
    pub fn pick<'a, T>(&mut self, xs: &'a [T]) -> &'a T {
        &xs[self.below(xs.len() as u64) as usize]
    }
    pub fn u128(&mut self) -> u128 {
        ((self.next() as u128) << 64) | self.next() as u128
    }
    /// a u128 with a random bit length (so small and huge magnitudes are equally likely)
    pub fn u128_loglike(&mut self) -> u128 {
        let bits = self.below(129) as u32;
        if bits == 0 { 0 } else if bits == 128 { self.u128() } else { self.u128() & ((1u128 << bits) - 1) }
    }
}
