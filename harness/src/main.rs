mod engine;
mod families;
mod fault;
mod integer;
mod replay;
mod world;
mod rng;

use std::io::{BufWriter, Write};

fn main() {
    // contract panics are caught and recorded as failed calls; VERIF_DEBUG=1 prints them (and the harness's own)
    if std::env::var("VERIF_DEBUG").is_ok() { std::panic::set_hook(Box::new(|i| { eprintln!("panic: {}", i); })); } else { std::panic::set_hook(Box::new(|_| {})); }
    let args: Vec<String> = std::env::args().collect();
    let family = args.get(1).map(|s| s.as_str()).unwrap_or("");
    let out_path = args.get(2).cloned().unwrap_or_else(|| "/dev/stdout".to_string());
    let seed: u64 = args.get(3).and_then(|s| s.parse().ok()).unwrap_or(0);
    let thorough = args.get(4).map(|s| s == "thorough").unwrap_or(false);
    let f = std::fs::File::create(&out_path).expect("cannot create trace file");
    let mut out = BufWriter::new(f);
    match family {
        "integer" => integer::run(&mut out, seed, thorough),
        "vamm" | "feed" | "auth" | "c14" | "faults" | "twin" | "forge" => {
            let n: usize = args.get(5).and_then(|s| s.parse().ok()).unwrap_or(if thorough { 40 } else { 10 });
            match family {
                "vamm" => families::run_vamm(&mut out, seed, thorough, n),
                "feed" => families::run_feed(&mut out, seed, thorough, n),
                "auth" => families::run_auth(&mut out, seed, thorough, n),
                "c14" => families::run_c14(&mut out, seed, thorough, n),
                "faults" => families::run_faults(&mut out, seed, thorough, n),
                "forge" => families::run_forge(&mut out, seed, thorough, n),
                _ => families::run_twin(&mut out, seed, thorough, n),
            }
        }
        "replay" => replay::run(&mut out, args.get(5).expect("replay needs an input file")),
        "engine" => {
            let n: usize = args.get(5).and_then(|s| s.parse().ok()).unwrap_or(if thorough { 60 } else { 20 });
            let native = match args.get(6).map(|s| s.as_str()) { Some("native") => Some(true), Some("cw20") => Some(false), _ => None };
            let real = args.get(7).map(|s| s == "real").unwrap_or(false);
            let profile = args.get(8).cloned().unwrap_or_else(|| "general".to_string());
            engine::run(&mut out, seed, thorough, n, native, real, &profile)
        }
        _ => {
            eprintln!("usage: mp_harness <family> <trace-file> <seed> [quick|thorough]");
            std::process::exit(2);
        }
    }
    out.flush().unwrap();
}
