//! Engine-level histories: structured random generation with boundary tuners and state steering,
//! executed against the real contracts; every operation and the implementation's observation
//! after it are written to the trace.
use crate::fault;
use crate::rng::Rng;
use crate::world::*;
use margined_common::integer::Integer;
use margined_perp::margined_engine as me;
use margined_perp::margined_vamm as mv;
use cosmwasm_std::Uint128;
use std::io::Write;

pub struct Tracer<'a> {
    pub out: &'a mut dyn Write,
    pub n: u64,
    pub observe_every_op: bool,
}

impl<'a> Tracer<'a> {
    pub fn begin(&mut self, w: &World, label: &str) {
        writeln!(self.out, "HISTORY {}", label).unwrap();
        for l in w.deploy_lines() { writeln!(self.out, "{}", l).unwrap(); }
        self.n = 0;
    }
    /// run one op on the implementation, record it with its result and the observation
    pub fn step(&mut self, w: &mut World, op: &Op) -> bool {
        self.step_f(w, op, -1)
    }
    pub fn step_f(&mut self, w: &mut World, op: &Op, fault_at: i64) -> bool {
        self.n += 1;
        let before = if fault_at >= 0 || self.observe_every_op { Some(w.fingerprint()) } else { None };
        if fault_at >= 0 {
            writeln!(self.out, "F {}", fault_at).unwrap();
            fault::arm(fault_at);
        } else {
            fault::reset_counter();
        }
        let notes = annotate(w, op);
        if !notes.is_empty() { writeln!(self.out, "A {}", notes).unwrap(); }
        writeln!(self.out, "OP {} {}", self.n, op.text()).unwrap();
        let ok = w.apply(op);
        let dispatched = if fault_at >= 0 { fault::disarm() } else { fault::counter() };
        writeln!(self.out, "R {} submsgs={}", if ok { "ok" } else { "err" }, dispatched).unwrap();
        // C16 speaks about one particular refusal: say when it was that one
        if !ok && w.last_err.contains("Only one action allowed") { writeln!(self.out, "X why=restricted").unwrap(); }
        if let Some(b) = before {
            if !ok {
                let after = w.fingerprint();
                writeln!(self.out, "X unchanged={}", if after == b { 1 } else { 0 }).unwrap();
            }
        }
        for l in w.observe() { writeln!(self.out, "{}", l).unwrap(); }
        ok
    }
    pub fn end(&mut self) {
        writeln!(self.out, "END").unwrap();
    }
}

/// facts about the pre-state that classify which branch of the code the operation will take
/// (used by the monitors to tell known call sites apart; computed from queries only)
pub fn annotate(w: &World, op: &Op) -> String {
    match op {
        Op::Eng { m: EMsg::Liq { vamm, trader, .. }, .. } => {
            let p = match w.position(*vamm, *trader) { Some(p) => p, None => return String::new() };
            let cfg = eng_cfg(w);
            if cfg.partial_liquidation_ratio.is_zero() { return "pl_branch=none".to_string(); }
            let part = p.size.value.u128().checked_mul(cfg.partial_liquidation_ratio.u128()).map(|x| x / cfg.decimals.u128()).unwrap_or(0);
            let cur: Option<Uint128> = w.q(&w.addr(*vamm), &mv::QueryMsg::OutputAmount { direction: p.direction.clone(), amount: Uint128::new(part) });
            match cur {
                Some(c) if c > p.notional => "pl_branch=input".to_string(),
                Some(_) => "pl_branch=output".to_string(),
                None => "pl_branch=err".to_string(),
            }
        }
        Op::Eng { sender, m: EMsg::Close { vamm, .. }, .. } => {
            let p = match w.position(*vamm, *sender) { Some(p) => p, None => return String::new() };
            if (*vamm as usize) < ID_VAMM0 as usize || ((*vamm - ID_VAMM0) as usize) >= w.vamms.len() { return String::new(); }
            let c = vamm_cfg(w, *vamm);
            if c.fluctuation_limit_ratio.is_zero() || p.size.value.is_zero() { return String::new(); }
            let st = vamm_state(w, *vamm);
            let quote: Option<Uint128> = w.q(&w.addr(*vamm), &mv::QueryMsg::OutputAmount { direction: p.direction.clone(), amount: p.size.value });
            let quote = match quote { Some(q) => q.u128(), None => return "whole_close_in_band=err".to_string() };
            let (q, b, d) = (st.quote_asset_reserve.u128(), st.base_asset_reserve.u128(), c.decimals.u128());
            let (q2, b2) = if p.direction == mv::Direction::AddToAmm {
                (q.checked_sub(quote), b.checked_add(p.size.value.u128()))
            } else {
                (q.checked_add(quote), b.checked_sub(p.size.value.u128()))
            };
            let price = match (q2, b2) { (Some(q2), Some(b2)) if b2 > 0 => q2.checked_mul(d).map(|x| x / b2), _ => None };
            let band = w.band(*vamm);
            match (price, band) {
                (Some(pz), Some((lo, hi))) => format!("whole_close_in_band={}", if lo <= pz && pz <= hi { 1 } else { 0 }),
                _ => "whole_close_in_band=err".to_string(),
            }
        }
        Op::Eng { sender, m: EMsg::Open { vamm, side, .. }, .. } => {
            // an open against an existing position: what the position is worth at spot decides reduce vs reverse
            let p = match w.position(*vamm, *sender) { Some(p) => p, None => return String::new() };
            if p.size.value.is_zero() || (p.direction == mv::Direction::AddToAmm) == (*side == Side::Buy) { return String::new(); }
            match spot_pnl(w, *vamm, *sender) { Some(pn) => format!("spot_notional={}", pn.position_notional), None => String::new() }
        }
        _ => String::new(),
    }
}

// ---------------------------------------------------------------------------------- deployments
pub const TRADERS: [u32; 4] = [21, 22, 23, 24];
pub const LIQUIDATOR: u32 = 31;
pub const STRANGER: u32 = 41;
pub const NEWOWNER: u32 = 42;

pub fn accounts() -> Vec<u32> {
    let mut v = TRADERS.to_vec();
    v.push(LIQUIDATOR);
    v.push(STRANGER);
    v.push(NEWOWNER);
    v
}

pub fn unit(dec: u8) -> u128 { 10u128.pow(dec as u32) }

pub fn random_deploy(rng: &mut Rng, native: Option<bool>, real_feed: bool) -> Deploy {
    let native = native.unwrap_or_else(|| rng.chance(1, 3));
    let decimals: u8 = if native { 6 } else { *rng.pick(&[6u8, 6, 9, 9, 12]) };
    let d = unit(decimals);
    let ratios = [0u128, 1, d / 100, d / 20, d / 10, d / 4, d / 2, d - 1, d];
    let maint = *rng.pick(&[d / 100, d / 20, d / 20, d / 16, d / 10, 0, 1]);
    let init = std::cmp::max(maint, *rng.pick(&[d / 20, d / 10, d / 10, d / 5, d / 2, d]));
    let liqfee = *rng.pick(&[d / 40, d / 20, d / 20, d / 10, 0, 1, d / 2]);
    let nv = if rng.chance(1, 4) { 2 } else { 1 };
    let mut vamms = vec![];
    for _ in 0..nv {
        let scale = *rng.pick(&[1u128, 10, 100, 1000, 1000, 100_000]);
        let price = *rng.pick(&[1u128, 2, 10, 10, 100, 1500]);
        let mut b = scale * d + rng.below(1000) as u128 * if rng.chance(1, 2) { 1 } else { 0 };
        let mut q = b * price + rng.below(1000) as u128 * if rng.chance(1, 2) { 1 } else { 0 };
        // one market in six is priced below one quote unit per base unit (a dust amount of base is then worth nothing)
        // (both reserves have to exceed one whole unit)
        if rng.chance(1, 5) {
            let div = *rng.pick(&[2u128, 10, 100, 1000]);
            if b / div <= d { b = d * div * (2 + rng.below(5) as u128) + rng.below(1000) as u128; }
            q = b / div + rng.below(1000) as u128;
        }
        let fee_choices = [0u128, 0, 0, d / 1000, d / 100, d / 20, 1];
        vamms.push(VammInit {
            decimals,
            q, b,
            fperiod: *rng.pick(&[3600u64, 3600, 7200, 86400, 1800, 1000]),
            toll: *rng.pick(&fee_choices),
            spread: *rng.pick(&fee_choices),
            fluct: *rng.pick(&[0u128, 0, 0, d / 100, d / 20, d / 5]),
        });
    }
    let _ = ratios;
    Deploy { native, decimals, real_feed, init, maint, liqfee, vamms, t0: 1_600_000_000 + rng.below(100_000), h0: 1000 + rng.below(1000) }
}

/// the set-up every history starts with (all recorded as ordinary operations)
pub fn setup(tr: &mut Tracer, w: &mut World, rng: &mut Rng) {
    let d = unit(w.d.decimals);
    let bi = w.app.block_info();
    for i in 0..w.vamms.len() {
        let v = ID_VAMM0 + i as u32;
        tr.step(w, &Op::If { sender: ID_OWNER, m: IMsg::Add(v) });
        tr.step(w, &Op::Vamm { sender: ID_OWNER, v, m: VMsg::SetOpen(true) });
    }
    // oracle: spot price of the first vAMM
    let spot = match w.d.vamms[0].q.checked_mul(d) { Some(x) => x / w.d.vamms[0].b, None => w.d.vamms[0].q / w.d.vamms[0].b * d };
    tr.step(w, &Op::Feed { sender: ID_OWNER, m: PMsg::Append { price: spot, t: bi.time.seconds() } });
    let rich = 10_000_000u128 * d;
    for t in TRADERS.iter().chain([LIQUIDATOR].iter()) {
        tr.step(w, &Op::Tok { sender: ID_OWNER, m: TMsg::Mint { to: *t, amt: rich } });
        if !w.d.native {
            tr.step(w, &Op::Tok { sender: *t, m: TMsg::Allow(rich * 1000) });
        }
    }
    let if_funds = *rng.pick(&[rich, rich, d * 5000, d * 10, 0]);
    if if_funds > 0 {
        tr.step(w, &Op::Tok { sender: ID_OWNER, m: TMsg::Mint { to: ID_IFUND, amt: if_funds } });
    }
    tr.step(w, &Op::Fp { sender: ID_OWNER, m: FMsg::Add(0) });
    // partial liquidation ratio
    let plr = *rng.pick(&[0u128, 0, d / 4, d / 2, d / 10, d, d * 9 / 10]);
    if plr > 0 {
        tr.step(w, &Op::Eng { sender: ID_OWNER, funds: 0, m: EMsg::UpdCfg { owner: None, ifund: None, fpool: None, init: None, maint: None, plr: Some(plr), liqfee: None } });
    }
}

// ---------------------------------------------------------------------------------- helpers
pub fn vamm_state(w: &World, v: u32) -> mv::StateResponse {
    w.q(&w.addr(v), &mv::QueryMsg::State {}).unwrap()
}
pub fn vamm_cfg(w: &World, v: u32) -> mv::ConfigResponse {
    w.q(&w.addr(v), &mv::QueryMsg::Config {}).unwrap()
}
pub fn eng_cfg(w: &World) -> me::ConfigResponse {
    w.q(&w.engine, &me::QueryMsg::Config {}).unwrap()
}
pub fn margin_ratio(w: &World, v: u32, t: u32) -> Option<Integer> {
    w.q(&w.engine, &me::QueryMsg::MarginRatio { vamm: w.addr(v).to_string(), trader: w.addr(t).to_string() })
}
pub fn calc_fee(w: &World, v: u32, notional: u128) -> u128 {
    let r: Option<mv::CalcFeeResponse> = w.q(&w.addr(v), &mv::QueryMsg::CalcFee { quote_asset_amount: Uint128::new(notional) });
    r.map(|f| f.toll_fee.u128() + f.spread_fee.u128()).unwrap_or(0)
}
pub fn spot_pnl(w: &World, v: u32, t: u32) -> Option<me::PositionUnrealizedPnlResponse> {
    w.q(&w.engine, &me::QueryMsg::UnrealizedPnl { vamm: w.addr(v).to_string(), trader: w.addr(t).to_string(), calc_option: me::PnlCalcOption::SpotPrice })
}

/// what a cw20 deployment would pull from the caller for this OpenPosition (net, >= 0)
pub fn open_funds_cw20_rule(w: &World, v: u32, t: u32, side: &Side, margin: u128, lev: u128) -> u128 {
    open_funds_cw20_detail(w, v, t, side, margin, lev).0
}

/// (what a cw20 deployment pulls, for a reversal that re-opens: (fresh margin needed beyond the released equity, released equity, fees))
pub fn open_funds_cw20_detail(w: &World, v: u32, t: u32, side: &Side, margin: u128, lev: u128) -> (u128, Option<(i128, i128, u128)>) {
    let d = unit(w.d.decimals);
    let on = match margin.checked_mul(lev) { Some(x) => x / d, None => return (0, None) };
    let fees = calc_fee(w, v, on);
    let pos = w.position(v, t);
    let increase = match &pos {
        None => true,
        Some(p) => p.size.value.is_zero() || (p.direction == mv::Direction::AddToAmm) == (*side == Side::Buy),
    };
    let sm = |n: u128| -> u128 { if lev == 0 { 0 } else { n.checked_mul(d).map(|x| x / lev).unwrap_or(0) } };
    if increase { return (sm(on) + fees, None); }
    let p = pos.unwrap();
    let pn = spot_pnl(w, v, t);
    let (pnotional, upnl) = match pn { Some(x) => (x.position_notional.u128(), x.unrealized_pnl), None => return (fees, None) };
    if pnotional > on { return (fees, None); }
    // reversal: the whole position is closed for `out` quote, then the remainder re-opened
    let out: Option<Uint128> = w.q(&w.addr(v), &mv::QueryMsg::OutputAmount { direction: p.direction.clone(), amount: p.size.value });
    let out = out.map(|x| x.u128()).unwrap_or(0);
    let rest = if on > out { on - out } else { out - on };
    if lev == 0 || rest / lev == 0 { return (fees, None); }
    // margin_to_vault = -(old_margin - funding owed) - upnl + swap_margin(rest)
    let mwf: Option<me::Position> = w.q(&w.engine, &me::QueryMsg::PositionWithFundingPayment { vamm: w.addr(v).to_string(), trader: w.addr(t).to_string() });
    let margin_settled = mwf.map(|x| x.margin.u128()).unwrap_or(p.margin.u128());
    let released: i128 = margin_settled as i128 + if upnl.negative { -(upnl.value.u128() as i128) } else { upnl.value.u128() as i128 };
    let need = sm(rest) as i128 - released;
    (fees + if need > 0 { need as u128 } else { 0 }, Some((need, released, fees)))
}

/// what the engine's own native bookkeeping demands (as coded) for a reversal
pub fn open_funds_native_code_rule(w: &World, v: u32, t: u32, side: &Side, margin: u128, lev: u128) -> Vec<u128> {
    let d = unit(w.d.decimals);
    let mut c = vec![open_funds_cw20_rule(w, v, t, side, margin, lev)];
    let on = match margin.checked_mul(lev) { Some(x) => x / d, None => return c };
    let fees = calc_fee(w, v, on);
    if let Some(p) = w.position(v, t) {
        let out: Option<Uint128> = w.q(&w.addr(v), &mv::QueryMsg::OutputAmount { direction: p.direction.clone(), amount: p.size.value });
        let out = out.map(|x| x.u128()).unwrap_or(0);
        let rest = if on > out { on - out } else { out - on };
        if lev > 0 {
            let sm = rest.checked_mul(d).map(|x| x / lev).unwrap_or(0);
            c.push(fees + sm);
            c.push(sm);
            c.push(fees + fees + sm);
        }
    }
    c.push(fees);
    c.dedup();
    c
}

pub fn mk_open(w: &World, t: u32, v: u32, side: Side, margin: u128, lev: u128, limit: u128) -> Op {
    let funds = if w.d.native { open_funds_cw20_rule(w, v, t, &side, margin, lev) } else { 0 };
    Op::Eng { sender: t, funds, m: EMsg::Open { vamm: v, side, margin, lev, limit } }
}

pub struct Profile {
    pub len: usize,
    pub w_open: u64, pub w_close: u64, pub w_deposit: u64, pub w_withdraw: u64, pub w_liq: u64,
    pub w_funding: u64, pub w_block: u64, pub w_oracle: u64, pub w_cfg: u64, pub w_malformed: u64,
    pub w_steer_liq: u64, pub w_pause: u64, pub w_caps: u64, pub w_pcf: u64, pub w_c16: u64, pub w_band: u64, pub w_drain: u64, pub w_zeroeq: u64, pub w_reduce: u64, pub w_dust: u64,
}

impl Profile {
    pub fn named(name: &str, len: usize) -> Profile {
        let mut p = Profile::general(len);
        match name {
            "liq" => { p.w_steer_liq = 25; p.w_liq = 8; p.w_open = 30; p.w_oracle = 8; }
            "funding" => { p.w_funding = 18; p.w_block = 18; p.w_oracle = 8; p.w_open = 30; }
            "caps" => { p.w_caps = 14; p.w_open = 45; p.w_cfg = 10; }
            "pause" => { p.w_pause = 8; p.w_malformed = 8; }
            "fluct" => { p.w_close = 20; p.w_block = 8; p.w_band = 10; }
            "pcf" => { p.w_close = 12; p.w_block = 8; p.w_funding = 8; p.w_oracle = 6; p.w_open = 30; p.w_steer_liq = 3; p.w_pcf = 14; }
            "drain" => { p.w_steer_liq = 18; p.w_liq = 6; p.w_open = 26; p.w_oracle = 6; p.w_drain = 10; }
            "c16" => { p.w_c16 = 16; p.w_open = 30; p.w_steer_liq = 4; }
            "reduce" => { p.w_reduce = 16; p.w_open = 30; p.w_block = 10; }
            _ => {}
        }
        p
    }
    pub fn general(len: usize) -> Profile {
        Profile { len, w_open: 36, w_close: 10, w_deposit: 4, w_withdraw: 5, w_liq: 4, w_funding: 5, w_block: 14,
                  w_oracle: 4, w_cfg: 2, w_malformed: 5, w_steer_liq: 7, w_pause: 1, w_caps: 2, w_pcf: 0, w_c16: 0, w_band: 0, w_drain: 0, w_zeroeq: 3, w_reduce: 2, w_dust: 2 }
    }
}

fn pick_amount(rng: &mut Rng, d: u128) -> u128 {
    match rng.below(10) {
        0 => 1 + rng.below(1000) as u128,                         // dust
        1 => d / 100 + rng.below(997) as u128,
        2 | 3 => d * (1 + rng.below(20) as u128) + rng.below(1000) as u128,
        4 | 5 | 6 => d * (1 + rng.below(100) as u128),
        7 => d * (100 + rng.below(2000) as u128) + rng.below(1_000_000) as u128,
        8 => d * (1 + rng.below(10) as u128) / 3,
        _ => d * 60,
    }
}

fn pick_leverage(rng: &mut Rng, w: &World) -> u128 {
    let d = unit(w.d.decimals);
    let cfg = eng_cfg(w);
    let init = cfg.initial_margin_ratio.u128();
    let max_lev = if init == 0 { d * 100 } else { d * d / init };
    match rng.below(12) {
        0 => max_lev,                                   // exactly 1/initial ratio
        1 => max_lev + 1,
        2 => if max_lev > 0 { max_lev - 1 } else { 0 },
        3 => d,                                         // exactly 1x
        4 => d - 1,                                     // below 1x
        5 => d + d / 3,                                 // non-integer leverage
        6 => d * 2 + 1,
        _ => { let hi = std::cmp::max(1, std::cmp::min(max_lev / d, 20)); d * (1 + rng.below(hi as u64) as u128) }
    }
}

pub fn with_position(w: &World) -> Vec<(u32, u32)> {
    let mut v = vec![];
    for i in 0..w.vamms.len() {
        for t in TRADERS.iter().chain([LIQUIDATOR].iter()) {
            if let Some(p) = w.position(ID_VAMM0 + i as u32, *t) {
                if !p.size.value.is_zero() { v.push((ID_VAMM0 + i as u32, *t)); }
            }
        }
    }
    v
}

/// make (v,t) liquidatable by configuration: maintenance := observed margin ratio (+delta), oracle := spot
pub fn steer_liquidatable(tr: &mut Tracer, w: &mut World, rng: &mut Rng, v: u32, t: u32) {
    let d = unit(w.d.decimals);
    // one time in six the liquidation happens with the price exactly on the edge of the per-block band: a small trade
    // by somebody else moves the price in this block, and the limit is then set so that the edge is the current price
    // one time in three a funding settlement happens first, so that the position owes (or is owed) funding when
    // its liquidation ratio is evaluated
    if rng.chance(1, 3) {
        let fp = vamm_cfg(w, v).funding_period;
        tr.step(w, &Op::Block { dt: fp + 1 + rng.below(100), dh: 1 });
        let spot: Option<Uint128> = w.q(&w.addr(v), &mv::QueryMsg::SpotPrice {});
        if let Some(sp) = spot {
            let nowt = w.app.block_info().time.seconds();
            let pz = match rng.below(4) { 0 => sp.u128() * 97 / 100, 1 => sp.u128() * 103 / 100, 2 => sp.u128() * 90 / 100, _ => sp.u128() * 110 / 100 };
            tr.step(w, &Op::Feed { sender: ID_OWNER, m: PMsg::Append { price: pz.max(1), t: nowt } });
        }
        tr.step(w, &Op::Eng { sender: STRANGER, funds: 0, m: EMsg::PayFunding { vamm: v } });
    }
    let edge = rng.chance(1, 6);
    if edge {
        let others: Vec<u32> = TRADERS.iter().cloned().filter(|x| *x != t).collect();
        let who = *rng.pick(&others);
        let q = vamm_state(w, v).quote_asset_reserve.u128();
        let n = q / (20 + rng.below(200) as u128) + 1;
        if n < 2_000_000u128 * d {
            let op = mk_open(w, who, v, if rng.chance(1, 2) { Side::Buy } else { Side::Sell }, n, d, 0); tr.step(w, &op);
        }
    }
    let mr = match margin_ratio(w, v, t) { Some(m) => m, None => return };
    let target: u128 = if mr.negative { *rng.pick(&[0u128, 1, d / 20]) } else {
        let m = mr.value.u128();
        if m > d { return; }
        match rng.below(4) { 0 => m, 1 => std::cmp::min(d, m + 1), 2 => std::cmp::min(d, m + d / 50), _ => if m > 0 { m - 1 } else { 0 } }
    };
    let cfg = eng_cfg(w);
    let init = cfg.initial_margin_ratio.u128();
    if target > init {
        tr.step(w, &Op::Eng { sender: ID_OWNER, funds: 0, m: EMsg::UpdCfg { owner: None, ifund: None, fpool: None, init: Some(target), maint: None, plr: None, liqfee: None } });
    }
    tr.step(w, &Op::Eng { sender: ID_OWNER, funds: 0, m: EMsg::UpdCfg { owner: None, ifund: None, fpool: None, init: None, maint: Some(target), plr: None, liqfee: None } });
    if rng.chance(3, 4) {
        let spot: Option<Uint128> = w.q(&w.addr(v), &mv::QueryMsg::SpotPrice {});
        if let Some(s) = spot {
            let bi = w.app.block_info();
            // oracle on both sides of the 10% spread limit, measured against the oracle (spot = oracle x 1.1 <=> oracle = spot / 1.1)
            let sp = s.u128();
            let p = match rng.below(12) { 0 => sp * 11 / 10, 1 => sp * 9 / 10, 2 => sp * 10 / 11 + 1, 3 => sp * 10 / 11, 4 => sp * 1000 / 1105, 5 => sp * 1000 / 1095,
                                          6 => sp * 1000 / 1050, 7 => sp * 10 / 9, 8 => sp * 1000 / 905, _ => sp };
            tr.step(w, &Op::Feed { sender: ID_OWNER, m: PMsg::Append { price: p, t: bi.time.seconds() } });
        }
    }
    // when the vAMM price is over the spread limit the ratio in force is the higher of the vAMM-priced and the
    // oracle-priced one: half of the time the maintenance ratio is then put right at the oracle-priced ratio
    // (one below, equal, one above), the boundary between "may be liquidated" and "may not"
    if rng.chance(1, 2) {
        let osl: Option<bool> = w.q(&w.addr(v), &mv::QueryMsg::IsOverSpreadLimit {});
        if osl == Some(true) {
            let mwf: Option<me::Position> = w.q(&w.engine, &me::QueryMsg::PositionWithFundingPayment { vamm: w.addr(v).to_string(), trader: w.addr(t).to_string() });
            let po: Option<me::PositionUnrealizedPnlResponse> = w.q(&w.engine, &me::QueryMsg::UnrealizedPnl { vamm: w.addr(v).to_string(), trader: w.addr(t).to_string(), calc_option: me::PnlCalcOption::Oracle });
            if let (Some(m), Some(po)) = (mwf, po) {
                let n = po.position_notional.u128() as i128;
                let pnl = if po.unrealized_pnl.negative { -(po.unrealized_pnl.value.u128() as i128) } else { po.unrealized_pnl.value.u128() as i128 };
                let eq = m.margin.u128() as i128 + pnl;
                if n > 0 && eq > 0 {
                    if let Some(x) = eq.checked_mul(d as i128) {
                        let r = (x / n) as u128;
                        let tgt = match rng.below(3) { 0 => r.saturating_sub(1), 1 => r, _ => r + 1 };
                        if tgt <= d {
                            let cfg2 = eng_cfg(w);
                            if tgt > cfg2.initial_margin_ratio.u128() {
                                tr.step(w, &Op::Eng { sender: ID_OWNER, funds: 0, m: EMsg::UpdCfg { owner: None, ifund: None, fpool: None, init: Some(tgt), maint: None, plr: None, liqfee: None } });
                            }
                            tr.step(w, &Op::Eng { sender: ID_OWNER, funds: 0, m: EMsg::UpdCfg { owner: None, ifund: None, fpool: None, init: None, maint: Some(tgt), plr: None, liqfee: None } });
                        }
                    }
                }
            }
        }
    }
    if edge {
        // reference price of the band with a zero limit = price at the end of the previous block
        tr.step(w, &Op::Vamm { sender: ID_OWNER, v, m: VMsg::UpdCfg { hold: None, oi: None, toll: None, spread: None, fluct: Some(0), engine: None, ifund: None, feed: None, twap: None } });
        let spot: Option<Uint128> = w.q(&w.addr(v), &mv::QueryMsg::SpotPrice {});
        if let (Some(sp), Some((r, _))) = (spot, w.band(v)) {
            let sp = sp.u128();
            let vd = vamm_cfg(w, v).decimals.u128();
            let mut found: Option<u128> = None;
            if r > 0 && sp != r {
                if let Some(x) = sp.checked_mul(vd) {
                    let est = if sp > r { (x / r).saturating_sub(vd) } else { vd.saturating_sub(x / r) };
                    for l in est.saturating_sub(2)..=est + 2 {
                        if l == 0 || l >= vd { continue; }
                        let e = if sp > r { r.checked_mul(vd + l).map(|y| y / vd) } else { r.checked_mul(vd - l).map(|y| y / vd) };
                        if e == Some(sp) { found = Some(l); break; }
                    }
                }
            }
            if let Some(l) = found {
                tr.step(w, &Op::Vamm { sender: ID_OWNER, v, m: VMsg::UpdCfg { hold: None, oi: None, toll: None, spread: None, fluct: Some(l), engine: None, ifund: None, feed: None, twap: None } });
            }
        }
    }
    // one time in eight the liquidation fee ratio is set so that the penalty on this position is exactly one unit (the
    // liquidator's half then rounds down to zero): the smallest non-zero penalty
    if rng.chance(1, 8) {
        if let Some(pn) = spot_pnl(w, v, t) {
            let o = pn.position_notional.u128();
            if o > 0 {
                let f = d / o + 1;
                if f <= d && o.checked_mul(f).map(|x| x / d) == Some(1) {
                    tr.step(w, &Op::Eng { sender: ID_OWNER, funds: 0, m: EMsg::UpdCfg { owner: None, ifund: None, fpool: None, init: None, maint: None, plr: None, liqfee: Some(f) } });
                }
            }
        }
    }
    let limit = 0;
    let who = *rng.pick(&[LIQUIDATOR, LIQUIDATOR, STRANGER, TRADERS[0], t]);
    tr.step(w, &Op::Eng { sender: who, funds: 0, m: EMsg::Liq { vamm: v, trader: t, limit } });
}

/// A profit larger than the vault: a first long is closed after a second one pushed the price up, so the
/// payout draws on the insurance fund (prepaid bad debt is recorded); the second long is then deep under
/// water with the vault nearly empty, and is liquidated.
pub fn drain_macro(tr: &mut Tracer, w: &mut World, rng: &mut Rng, v: u32) {
    let d = unit(w.d.decimals);
    let free: Vec<u32> = TRADERS.iter().cloned().filter(|t| w.position(v, *t).is_none()).collect();
    if free.len() < 3 { return; }
    let (a, b, c) = (free[0], free[1], free[2]);
    let q = vamm_state(w, v).quote_asset_reserve.u128();
    let init = eng_cfg(w).initial_margin_ratio.u128();
    let max_lev = if init == 0 { 10 * d } else { std::cmp::min(d * d / init, 10 * d) };
    let li = std::cmp::max(max_lev / d, 1);
    let lev = li * d;
    let cap = 2_000_000u128 * d;
    tr.step(w, &Op::Block { dt: 10 + rng.below(50), dh: 1 });
    // no caps, no price band, a funded insurance fund: the scenario is about the vault, not about those
    tr.step(w, &Op::Vamm { sender: ID_OWNER, v, m: VMsg::UpdCfg { hold: Some(0), oi: Some(0), toll: None, spread: None, fluct: Some(0), engine: None, ifund: None, feed: None, twap: None } });
    tr.step(w, &Op::Tok { sender: ID_OWNER, m: TMsg::Mint { to: ID_IFUND, amt: 10_000_000u128 * d } });
    // the first long's profit (about na * nb * 1.6 / q) has to exceed the second long's margin nb / leverage
    let na = q / li / 100 * (70 + rng.below(80) as u128);
    if na == 0 || na / li > cap { return; }
    let ma = na * d / lev + 1;
    let op = mk_open(w, a, v, Side::Buy, ma, lev, 0); if !tr.step(w, &op) { return; }
    let mb = ma * (80 + rng.below(150) as u128) / 100 + 1;
    let op = mk_open(w, b, v, Side::Buy, mb, lev, 0); if !tr.step(w, &op) { return; }
    // a small leveraged long opened at the top: once the first long has sold, its loss exceeds its margin, so the
    // prepaid amount ends up slightly above the second long's bad debt (by that excess) with the vault empty
    if rng.chance(3, 4) {
        let mc = match rng.below(5) { 0 => 1 + rng.below(1000) as u128, 1 => mb / 500 + 1, 2 => mb / 100 + 1, 3 => mb / 30 + 1, _ => mb / 10 + 1 };
        let op = mk_open(w, c, v, Side::Buy, mc, lev, 0); tr.step(w, &op);
    }
    if !tr.step(w, &Op::Eng { sender: a, funds: 0, m: EMsg::Close { vamm: v, limit: 0 } }) { return; }
    if rng.chance(1, 4) {
        let mc = match rng.below(4) { 0 => 1 + rng.below(1000) as u128, 1 => ma / 100 + 1, 2 => ma / 20 + 1, _ => d };
        let who = if w.position(v, c).is_none() { c } else { a };
        let op = mk_open(w, who, v, if rng.chance(1, 2) { Side::Buy } else { Side::Sell }, mc, d, 0); tr.step(w, &op);
    }
    tr.step(w, &Op::Block { dt: 1 + rng.below(20), dh: 1 });
    // half of the time the second long is topped up so that the bad debt its full liquidation realises is exactly
    // the prepaid amount (or one unit off): the boundary of realize_bad_debt
    if rng.chance(1, 2) {
        let st: Option<crate::world::RawEngineState> = w.raw_singleton(&w.engine, b"state");
        let mwf: Option<me::Position> = w.q(&w.engine, &me::QueryMsg::PositionWithFundingPayment { vamm: w.addr(v).to_string(), trader: w.addr(b).to_string() });
        if let (Some(st), Some(m), Some(pn)) = (st, mwf, spot_pnl(w, v, b)) {
            let cfg = eng_cfg(w);
            let prepaid = st.prepaid_bad_debt.u128();
            let fee = pn.position_notional.u128().saturating_mul(cfg.liquidation_fee.u128()) / d / 2;
            if pn.unrealized_pnl.negative && pn.unrealized_pnl.value.u128() > m.margin.u128() && prepaid > 0 && fee <= prepaid {
                let bad = pn.unrealized_pnl.value.u128() - m.margin.u128() + fee;
                if bad > prepaid {
                    tr.step(w, &Op::Eng { sender: ID_OWNER, funds: 0, m: EMsg::UpdCfg { owner: None, ifund: None, fpool: None, init: None, maint: None, plr: Some(0), liqfee: None } });
                    let x = bad - prepaid;
                    let amt = match rng.below(4) { 0 => x + 1, 1 => x.saturating_sub(1).max(1), _ => x };
                    tr.step(w, &Op::Eng { sender: b, funds: if w.d.native { amt } else { 0 }, m: EMsg::Deposit { vamm: v, amt } });
                }
            }
        }
    }
    steer_liquidatable(tr, w, rng, v, b);
}


/// how far (as a ratio in the vAMM's decimals) closing the whole position of (v,t) moves the spot price
pub fn whole_close_move(w: &World, v: u32, t: u32) -> Option<u128> {
    let p = w.position(v, t)?;
    if p.size.value.is_zero() { return None; }
    let c = vamm_cfg(w, v);
    let st = vamm_state(w, v);
    let quote: Option<Uint128> = w.q(&w.addr(v), &mv::QueryMsg::OutputAmount { direction: p.direction.clone(), amount: p.size.value });
    let quote = quote?.u128();
    let (q, b, vd) = (st.quote_asset_reserve.u128(), st.base_asset_reserve.u128(), c.decimals.u128());
    let (q2, b2) = if p.direction == mv::Direction::AddToAmm { (q.checked_sub(quote)?, b.checked_add(p.size.value.u128())?) }
                   else { (q.checked_add(quote)?, b.checked_sub(p.size.value.u128())?) };
    if b2 == 0 || b == 0 { return None; }
    let r = q.checked_mul(vd)? / b;
    let pz = q2.checked_mul(vd)? / b2;
    if r == 0 { return None; }
    let x = pz.checked_mul(vd)? / r;
    Some(if x > vd { x - vd } else { vd - x })
}

/// the fluctuation limit for which the price after closing the whole position of (v,t) is exactly the edge of the band
/// around the previous block's closing price (None when no integer limit hits it exactly)
pub fn edge_limit_for_whole_close(w: &World, v: u32, t: u32) -> Option<u128> {
    let p = w.position(v, t)?;
    if p.size.value.is_zero() { return None; }
    let c = vamm_cfg(w, v);
    let st = vamm_state(w, v);
    let quote: Option<Uint128> = w.q(&w.addr(v), &mv::QueryMsg::OutputAmount { direction: p.direction.clone(), amount: p.size.value });
    let quote = quote?.u128();
    let (q, b, vd) = (st.quote_asset_reserve.u128(), st.base_asset_reserve.u128(), c.decimals.u128());
    let (q2, b2) = if p.direction == mv::Direction::AddToAmm { (q.checked_sub(quote)?, b.checked_add(p.size.value.u128())?) }
                   else { (q.checked_add(quote)?, b.checked_sub(p.size.value.u128())?) };
    if b2 == 0 { return None; }
    let pz = q2.checked_mul(vd)? / b2;
    // reference price: the band with the current limit is around it; recover it from the snapshots as `band` does
    let n: u64 = w.raw_singleton(&w.addr(v), b"reserve_snapshot_counter")?;
    let mut s = w.snapshot(&w.addr(v), n)?;
    if s.block_height == w.app.block_info().height && n > 1 { s = w.snapshot(&w.addr(v), n - 1)?; }
    let r = s.quote_asset_reserve.u128().checked_mul(vd)? / s.base_asset_reserve.u128();
    if r == 0 || pz == r { return None; }
    let x = pz.checked_mul(vd)?;
    let est = if pz > r { (x / r).saturating_sub(vd) } else { vd.saturating_sub(x / r) };
    for l in est.saturating_sub(2)..=est + 2 {
        if l == 0 || l >= vd { continue; }
        let e = if pz > r { r.checked_mul(vd + l).map(|y| y / vd) } else { r.checked_mul(vd - l).map(|y| y / vd) };
        if e == Some(pz) { return Some(l); }
    }
    None
}

pub fn history(tr: &mut Tracer, w: &mut World, rng: &mut Rng, p: &Profile) {
    let d = unit(w.d.decimals);
    let total = p.w_open + p.w_close + p.w_deposit + p.w_withdraw + p.w_liq + p.w_funding + p.w_block + p.w_oracle
        + p.w_cfg + p.w_malformed + p.w_steer_liq + p.w_pause + p.w_caps + p.w_pcf + p.w_c16 + p.w_band + p.w_drain + p.w_zeroeq + p.w_reduce + p.w_dust;
    for _ in 0..p.len {
        let nv = w.vamms.len() as u64;
        let v = ID_VAMM0 + rng.below(nv) as u32;
        let t = *rng.pick(&TRADERS);
        let mut x = rng.below(total);
        let mut take = |wt: u64| -> bool { if x < wt { x = u64::MAX; true } else { if x != u64::MAX { x -= wt; } false } };
        if take(p.w_open) {
            let side = if rng.chance(1, 2) { Side::Buy } else { Side::Sell };
            let margin = pick_amount(rng, d);
            let lev = pick_leverage(rng, w);
            // slippage limit tuner: quote the base amount and put the limit at amt-1 / amt / amt+1
            let mut limit = 0u128;
            if rng.chance(1, 5) {
                if let Some(on) = margin.checked_mul(lev) {
                    let dir = if side == Side::Buy { mv::Direction::AddToAmm } else { mv::Direction::RemoveFromAmm };
                    let qa: Option<Uint128> = w.q(&w.addr(v), &mv::QueryMsg::InputAmount { direction: dir, amount: Uint128::new(on / d) });
                    if let Some(qa) = qa {
                        limit = match rng.below(3) { 0 => qa.u128().saturating_sub(1), 1 => qa.u128(), _ => qa.u128() + 1 };
                    }
                }
            }
            if w.d.native && rng.chance(1, 3) && w.position(v, t).is_some() {
                // native reversal: try every candidate attachment (failed attempts are part of the history)
                for f in open_funds_native_code_rule(w, v, t, &side, margin, lev) {
                    let op = Op::Eng { sender: t, funds: f, m: EMsg::Open { vamm: v, side: side.clone(), margin, lev, limit } };
                    if tr.step(w, &op) { break; }
                }
            } else {
                let op = mk_open(w, t, v, side, margin, lev, limit);
                tr.step(w, &op);
            }
        } else if take(p.w_close) {
            let ps = with_position(w);
            let (v, t) = if !ps.is_empty() && rng.chance(9, 10) { *rng.pick(&ps) } else { (v, t) };
            let mut limit = 0u128;
            if rng.chance(1, 5) {
                if let Some(pos) = w.position(v, t) {
                    let qa: Option<Uint128> = w.q(&w.addr(v), &mv::QueryMsg::OutputAmount { direction: pos.direction.clone(), amount: pos.size.value });
                    if let Some(qa) = qa { limit = match rng.below(3) { 0 => qa.u128().saturating_sub(1), 1 => qa.u128(), _ => qa.u128() + 1 }; }
                }
            }
            tr.step(w, &Op::Eng { sender: t, funds: 0, m: EMsg::Close { vamm: v, limit } });
        } else if take(p.w_deposit) {
            let ps = with_position(w);
            let (v, t) = if !ps.is_empty() && rng.chance(9, 10) { *rng.pick(&ps) } else { (v, t) };
            let amt = pick_amount(rng, d) / 4 + 1;
            // native: the attached funds are the amount, or (a fifth of the time) one unit / a multiple off it, or nothing
            let funds = if w.d.native { match rng.below(10) { 0 => amt + 1, 1 => amt.saturating_sub(1), 2 => amt * 2, 3 => 0, _ => amt } } else { 0 };
            tr.step(w, &Op::Eng { sender: t, funds, m: EMsg::Deposit { vamm: v, amt } });
        } else if take(p.w_withdraw) {
            let ps = with_position(w);
            let (v, t) = if !ps.is_empty() && rng.chance(9, 10) { *rng.pick(&ps) } else { (v, t) };
            // free-collateral tuner: withdraw exactly the free collateral, one more, one less, or a fraction
            let fc: Option<Integer> = w.q(&w.engine, &me::QueryMsg::FreeCollateral { vamm: w.addr(v).to_string(), trader: w.addr(t).to_string() });
            let amt = match fc {
                Some(f) if !f.negative && !f.value.is_zero() => match rng.below(5) { 0 => f.value.u128(), 1 => f.value.u128() + 1, 2 => f.value.u128().saturating_sub(1).max(1), _ => f.value.u128() / (2 + rng.below(5) as u128) + 1 },
                _ => pick_amount(rng, d) / 10 + 1,
            };
            tr.step(w, &Op::Eng { sender: t, funds: 0, m: EMsg::Withdraw { vamm: v, amt } });
        } else if take(p.w_liq) {
            let ps = with_position(w);
            let (v, t) = if !ps.is_empty() { *rng.pick(&ps) } else { (v, t) };
            let who = *rng.pick(&[LIQUIDATOR, LIQUIDATOR, STRANGER, t]);
            tr.step(w, &Op::Eng { sender: who, funds: 0, m: EMsg::Liq { vamm: v, trader: t, limit: 0 } });
        } else if take(p.w_steer_liq) {
            let ps = with_position(w);
            if !ps.is_empty() {
                let (v, t) = *rng.pick(&ps);
                steer_liquidatable(tr, w, rng, v, t);
            }
        } else if take(p.w_funding) {
            // schedule tuner: move the clock to next_funding_time -1 / exactly / +1 / far beyond
            let st = vamm_state(w, v);
            let now = w.app.block_info().time.seconds();
            if rng.chance(2, 3) && st.next_funding_time > now {
                let target = match rng.below(4) { 0 => st.next_funding_time - 1, 1 => st.next_funding_time, 2 => st.next_funding_time + 1, _ => st.next_funding_time + rng.below(5000) };
                if target > now { tr.step(w, &Op::Block { dt: target - now, dh: 1 + rng.below(3) }); }
            }
            let who = *rng.pick(&[ID_OWNER, STRANGER, t]);
            // on native collateral a trader sometimes attaches coins to the call (they may only end up with the engine)
            let funds = if w.d.native && who == t && rng.chance(1, 4) { 1 + rng.below(1_000_000) as u128 } else { 0 };
            tr.step(w, &Op::Eng { sender: who, funds, m: EMsg::PayFunding { vamm: v } });
        } else if take(p.w_block) {
            let dt = match rng.below(6) { 0 => 0, 1 => 1, 2 => 5 + rng.below(60), 3 => 900, 4 => 3600 + rng.below(100), _ => rng.below(2000) };
            let dh = match rng.below(4) { 0 => 0, _ => 1 + rng.below(3) };
            tr.step(w, &Op::Block { dt, dh });
        } else if take(p.w_oracle) {
            let spot: Option<Uint128> = w.q(&w.addr(v), &mv::QueryMsg::SpotPrice {});
            if let Some(s) = spot {
                let s = s.u128();
                let pz = match rng.below(8) { 0 => s, 1 => s * 11 / 10, 2 => s * 9 / 10, 3 => s * 10 / 9, 4 => s / 2 + 1, 5 => s * 2, 6 => s * 100 / 111, _ => s + rng.below(1000) as u128 };
                let now = w.app.block_info().time.seconds();
                tr.step(w, &Op::Feed { sender: ID_OWNER, m: PMsg::Append { price: pz, t: now } });
            }
        } else if take(p.w_cfg) {
            let r = |rng: &mut Rng| -> u128 { *rng.pick(&[0u128, 1, d / 100, d / 20, d / 10, d / 4, d / 2, d - 1, d, d + 1]) };
            match rng.below(14) {
                // the engine's fee pool / insurance fund address is changed (to a plain account), a fee-paying trade
                // happens, and it is changed back
                10 | 11 => {
                    let fp = rng.chance(1, 2);
                    let (a, b) = if fp { (None, Some(STRANGER)) } else { (Some(STRANGER), None) };
                    tr.step(w, &Op::Eng { sender: ID_OWNER, funds: 0, m: EMsg::UpdCfg { owner: None, ifund: a, fpool: b, init: None, maint: None, plr: None, liqfee: None } });
                    let op = mk_open(w, t, v, if rng.chance(1, 2) { Side::Buy } else { Side::Sell }, d * (1 + rng.below(20) as u128), d, 0); tr.step(w, &op);
                    if rng.chance(1, 2) { tr.step(w, &Op::Eng { sender: t, funds: 0, m: EMsg::Close { vamm: v, limit: 0 } }); }
                    let (a, b) = if fp { (None, Some(ID_FEEPOOL)) } else { (Some(ID_IFUND), None) };
                    tr.step(w, &Op::Eng { sender: ID_OWNER, funds: 0, m: EMsg::UpdCfg { owner: None, ifund: a, fpool: b, init: None, maint: None, plr: None, liqfee: None } });
                }
                // the TWAP interval: just outside and just inside what the vAMM accepts
                12 => { let tw = *rng.pick(&[0u64, 1, 59, 60, 61, 604799, 604800, 604801, 1_000_000]);
                        tr.step(w, &Op::Vamm { sender: ID_OWNER, v, m: VMsg::UpdCfg { hold: None, oi: None, toll: None, spread: None, fluct: None, engine: None, ifund: None, feed: None, twap: Some(tw) } }); }
                // the vAMM's insurance fund (who may close and open it besides nobody) and price feed addresses
                13 => {
                    if rng.chance(1, 2) {
                        tr.step(w, &Op::Vamm { sender: ID_OWNER, v, m: VMsg::UpdCfg { hold: None, oi: None, toll: None, spread: None, fluct: None, engine: None, ifund: Some(STRANGER), feed: None, twap: None } });
                        if rng.chance(1, 2) {
                            tr.step(w, &Op::Vamm { sender: STRANGER, v, m: VMsg::SetOpen(false) });
                            tr.step(w, &Op::Vamm { sender: ID_OWNER, v, m: VMsg::SetOpen(true) });
                        }
                        // funding goes on meanwhile (a surplus still goes to the engine's fund)
                        if rng.chance(1, 2) {
                            let st = vamm_state(w, v);
                            let now = w.app.block_info().time.seconds();
                            if st.next_funding_time > now { tr.step(w, &Op::Block { dt: st.next_funding_time - now + rng.below(3), dh: 1 }); }
                            if rng.chance(1, 2) { if let Some(sp) = w.q::<Uint128>(&w.addr(v), &mv::QueryMsg::SpotPrice {}) { let nowt = w.app.block_info().time.seconds();
                                let pz = if rng.chance(1, 2) { sp.u128() * 9 / 10 } else { sp.u128() * 11 / 10 };
                                tr.step(w, &Op::Feed { sender: ID_OWNER, m: PMsg::Append { price: pz, t: nowt } }); } }
                            tr.step(w, &Op::Eng { sender: ID_OWNER, funds: 0, m: EMsg::PayFunding { vamm: v } });
                        }
                        // trading goes on meanwhile: the fees still go where the engine's configuration says
                        let op = mk_open(w, t, v, if rng.chance(1, 2) { Side::Buy } else { Side::Sell }, d * (1 + rng.below(20) as u128), d * 2, 0); tr.step(w, &op);
                        if rng.chance(1, 2) { let fees = w.position(v, t).map(|p| calc_fee(w, v, p.notional.u128())).unwrap_or(0);
                            tr.step(w, &Op::Eng { sender: t, funds: if w.d.native { fees } else { 0 }, m: EMsg::Close { vamm: v, limit: 0 } }); }
                        tr.step(w, &Op::Vamm { sender: ID_OWNER, v, m: VMsg::UpdCfg { hold: None, oi: None, toll: None, spread: None, fluct: None, engine: None, ifund: Some(ID_IFUND), feed: None, twap: None } });
                    } else {
                        let other = if rng.chance(1, 2) { ID_FEED } else { STRANGER };
                        tr.step(w, &Op::Vamm { sender: ID_OWNER, v, m: VMsg::UpdCfg { hold: None, oi: None, toll: None, spread: None, fluct: None, engine: None, ifund: None, feed: Some(other), twap: None } });
                        tr.step(w, &Op::Eng { sender: STRANGER, funds: 0, m: EMsg::PayFunding { vamm: v } });
                        tr.step(w, &Op::Vamm { sender: ID_OWNER, v, m: VMsg::UpdCfg { hold: None, oi: None, toll: None, spread: None, fluct: None, engine: None, ifund: None, feed: Some(ID_FEED), twap: None } });
                    }
                }
                // the owner closes a market and opens it again (with whatever open interest it carries), a trader
                // trying to act in between
                9 => { tr.step(w, &Op::Vamm { sender: ID_OWNER, v, m: VMsg::SetOpen(false) });
                       if rng.chance(1, 2) { let op = mk_open(w, t, v, Side::Buy, d, d, 0); tr.step(w, &op); }
                       if rng.chance(1, 2) { tr.step(w, &Op::Block { dt: 1 + rng.below(100), dh: 1 }); }
                       tr.step(w, &Op::Vamm { sender: ID_OWNER, v, m: VMsg::SetOpen(true) }); }
                // combined updates: every subset of the fields, each with its own value (a check that looks at one
                // field must not let another through)
                6 | 7 => { let mut o = |rng: &mut Rng| -> Option<u128> { if rng.chance(1, 2) { Some(r(rng)) } else { None } };
                       let (a, b, c, e) = (o(rng), o(rng), o(rng), o(rng));
                       tr.step(w, &Op::Eng { sender: ID_OWNER, funds: 0, m: EMsg::UpdCfg { owner: None, ifund: None, fpool: None, init: a, maint: b, plr: c, liqfee: e } }); }
                8 => { let mut o = |rng: &mut Rng| -> Option<u128> { if rng.chance(1, 2) { Some(r(rng)) } else { None } };
                       let (a, b, c) = (o(rng), o(rng), o(rng));
                       tr.step(w, &Op::Vamm { sender: ID_OWNER, v, m: VMsg::UpdCfg { hold: None, oi: None, toll: a, spread: b, fluct: c, engine: None, ifund: None, feed: None, twap: None } }); }
                0 => { let x = r(rng); tr.step(w, &Op::Eng { sender: ID_OWNER, funds: 0, m: EMsg::UpdCfg { owner: None, ifund: None, fpool: None, init: Some(x), maint: None, plr: None, liqfee: None } }); }
                1 => { let x = r(rng); tr.step(w, &Op::Eng { sender: ID_OWNER, funds: 0, m: EMsg::UpdCfg { owner: None, ifund: None, fpool: None, init: None, maint: Some(x), plr: None, liqfee: None } }); }
                2 => { let x = r(rng); tr.step(w, &Op::Eng { sender: ID_OWNER, funds: 0, m: EMsg::UpdCfg { owner: None, ifund: None, fpool: None, init: None, maint: None, plr: Some(x), liqfee: None } }); }
                3 => { let x = r(rng); tr.step(w, &Op::Eng { sender: ID_OWNER, funds: 0, m: EMsg::UpdCfg { owner: None, ifund: None, fpool: None, init: None, maint: None, plr: None, liqfee: Some(x) } }); }
                4 => { let x = r(rng); let y = r(rng); tr.step(w, &Op::Vamm { sender: ID_OWNER, v, m: VMsg::UpdCfg { hold: None, oi: None, toll: Some(x), spread: Some(y), fluct: None, engine: None, ifund: None, feed: None, twap: None } }); }
                _ => { let x = *rng.pick(&[0u128, d / 100, d / 20, d / 5, d]); tr.step(w, &Op::Vamm { sender: ID_OWNER, v, m: VMsg::UpdCfg { hold: None, oi: None, toll: None, spread: None, fluct: Some(x), engine: None, ifund: None, feed: None, twap: Some(*rng.pick(&[60u64, 900, 3600, 604800])) } }); }
            }
        } else if take(p.w_caps) {
            let st: me::StateResponse = w.q(&w.engine, &me::QueryMsg::State {}).unwrap();
            match rng.below(6) {
                5 => {
                    // a reversal that lands above the holding cap although it releases margin: a low-leverage position,
                    // the cap just above its size, then an opposite order at the highest leverage the engine admits
                    let ps = with_position(w);
                    if let Some((pv, pt)) = ps.iter().cloned().find(|(pv, pt)| w.position(*pv, *pt).map(|p| !p.size.value.is_zero()).unwrap_or(false)) {
                        if let (Some(p0), Some(pn)) = (w.position(pv, pt), spot_pnl(w, pv, pt)) {
                            let cap = p0.size.value.u128() + 1 + rng.below(3) as u128 * (d / 10);
                            tr.step(w, &Op::Eng { sender: ID_OWNER, funds: 0, m: EMsg::RmWl(pt) });
                            tr.step(w, &Op::Vamm { sender: ID_OWNER, v: pv, m: VMsg::UpdCfg { hold: Some(cap), oi: Some(0), toll: None, spread: None, fluct: Some(0), engine: None, ifund: None, feed: None, twap: None } });
                            let init = eng_cfg(w).initial_margin_ratio.u128();
                            let li = std::cmp::max(std::cmp::min(if init == 0 { 10 } else { d / init }, 10), 1);
                            let lev = li * d;
                            let side = if p0.direction == mv::Direction::AddToAmm { Side::Sell } else { Side::Buy };
                            // notional: what the position is worth plus 2..4 times as much again
                            let n = pn.position_notional.u128().saturating_mul(3 + rng.below(3) as u128);
                            if n > 0 && n < 2_000_000u128 * d {
                                let op = mk_open(w, pt, pv, side, n * d / lev + 1, lev, 0);
                                tr.step(w, &op);
                            }
                        }
                    }
                }
                0 => { let oi = st.open_interest_notional.u128(); let cap = match rng.below(3) { 0 => oi, 1 => oi + 1, _ => oi + pick_amount(rng, d) * 5 };
                       tr.step(w, &Op::Vamm { sender: ID_OWNER, v, m: VMsg::UpdCfg { hold: None, oi: Some(cap), toll: None, spread: None, fluct: None, engine: None, ifund: None, feed: None, twap: None } }); }
                1 => { let cap = match w.position(v, t) { Some(p) => p.size.value.u128() + rng.below(3) as u128 * d, None => pick_amount(rng, d) / 10 };
                       tr.step(w, &Op::Vamm { sender: ID_OWNER, v, m: VMsg::UpdCfg { hold: Some(cap), oi: None, toll: None, spread: None, fluct: None, engine: None, ifund: None, feed: None, twap: None } }); }
                2 => { tr.step(w, &Op::Eng { sender: ID_OWNER, funds: 0, m: EMsg::AddWl(t) }); }
                3 => { tr.step(w, &Op::Eng { sender: ID_OWNER, funds: 0, m: EMsg::RmWl(t) }); }
                _ => { tr.step(w, &Op::Vamm { sender: ID_OWNER, v, m: VMsg::UpdCfg { hold: Some(0), oi: Some(0), toll: None, spread: None, fluct: None, engine: None, ifund: None, feed: None, twap: None } }); }
            }
        } else if take(p.w_pause) {
            let paused = rng.chance(1, 2);
            tr.step(w, &Op::Eng { sender: ID_OWNER, funds: 0, m: EMsg::SetPause(paused) });
            if paused && rng.chance(3, 4) {
                // a couple of operations while paused, then unpause
                let op = mk_open(w, t, v, Side::Buy, d, d, 0);
                tr.step(w, &op);
                tr.step(w, &Op::Eng { sender: t, funds: 0, m: EMsg::Close { vamm: v, limit: 0 } });
                tr.step(w, &Op::Eng { sender: STRANGER, funds: 0, m: EMsg::PayFunding { vamm: v } });
                tr.step(w, &Op::Eng { sender: ID_OWNER, funds: 0, m: EMsg::SetPause(false) });
            }
        } else if take(p.w_pcf) {
            // funding settles on an open position, then its owner closes (partially, when the band is tight)
            let ps = with_position(w);
            if ps.is_empty() { continue; }
            let (v, t) = *rng.pick(&ps);
            let st = vamm_state(w, v);
            let now = w.app.block_info().time.seconds();
            if st.next_funding_time > now { tr.step(w, &Op::Block { dt: st.next_funding_time - now + rng.below(3), dh: 1 }); }
            if rng.chance(1, 2) {
                let spot: Option<Uint128> = w.q(&w.addr(v), &mv::QueryMsg::SpotPrice {});
                if let Some(sp) = spot { let nowt = w.app.block_info().time.seconds();
                    let pz = match rng.below(3) { 0 => sp.u128() * 9 / 10, 1 => sp.u128() * 11 / 10, _ => sp.u128() * 2 };
                    tr.step(w, &Op::Feed { sender: ID_OWNER, m: PMsg::Append { price: pz, t: nowt } }); }
            }
            tr.step(w, &Op::Eng { sender: STRANGER, funds: 0, m: EMsg::PayFunding { vamm: v } });
            tr.step(w, &Op::Block { dt: 1 + rng.below(20), dh: 1 });
            // tighten the band so that the close is split (the positions were opened with the band off)
            let mut tight = *rng.pick(&[d / 1000, d / 500, d / 100]);
            // one time in three the limit is chosen so that closing the whole position lands exactly on the edge of the
            // band (still inside it: the whole position has to be closed)
            if rng.chance(1, 3) {
                if let Some(l) = edge_limit_for_whole_close(w, v, t) { tight = l; }
            }
            tr.step(w, &Op::Vamm { sender: ID_OWNER, v, m: VMsg::UpdCfg { hold: None, oi: None, toll: None, spread: None, fluct: Some(tight), engine: None, ifund: None, feed: None, twap: None } });
            tr.step(w, &Op::Eng { sender: t, funds: 0, m: EMsg::Close { vamm: v, limit: 0 } });
            // a second close in the same block: when the first (partial) one left the price outside the band the vAMM
            // refuses the reduced swap as well, and the whole transaction has to fail cleanly
            if rng.chance(1, 2) { tr.step(w, &Op::Eng { sender: t, funds: 0, m: EMsg::Close { vamm: v, limit: 0 } }); }
            if rng.chance(1, 2) {
                tr.step(w, &Op::Block { dt: 1 + rng.below(20), dh: 1 });
                match rng.below(3) {
                    0 => { tr.step(w, &Op::Eng { sender: t, funds: 0, m: EMsg::Close { vamm: v, limit: 0 } }); }
                    1 => { tr.step(w, &Op::Eng { sender: t, funds: 0, m: EMsg::Withdraw { vamm: v, amt: d / 100 + 1 } }); }
                    _ => { let op = mk_open(w, t, v, if rng.chance(1, 2) { Side::Buy } else { Side::Sell }, d * (1 + rng.below(5) as u128), d, 0); tr.step(w, &op); }
                }
            }
            tr.step(w, &Op::Vamm { sender: ID_OWNER, v, m: VMsg::UpdCfg { hold: None, oi: None, toll: None, spread: None, fluct: Some(0), engine: None, ifund: None, feed: None, twap: None } });
        } else if take(p.w_band) {
            // a close (which may go over the band) pushes the price outside it; then opens in the opposite
            // direction, sized to land back inside the band, are attempted in the same block
            let ps = with_position(w);
            if ps.is_empty() { continue; }
            let (v, t) = *ps.iter().max_by_key(|(vv, tt)| w.position(*vv, *tt).map(|p| p.notional.u128()).unwrap_or(0)).unwrap();
            tr.step(w, &Op::Block { dt: 5 + rng.below(50), dh: 1 });
            let cfg = eng_cfg(w);
            let whole = rng.chance(1, 2);
            if whole { tr.step(w, &Op::Eng { sender: ID_OWNER, funds: 0, m: EMsg::UpdCfg { owner: None, ifund: None, fpool: None, init: None, maint: None, plr: Some(d), liqfee: None } }); }
            let tight = *rng.pick(&[d / 500, d / 100, d / 50, d / 20]);
            tr.step(w, &Op::Vamm { sender: ID_OWNER, v, m: VMsg::UpdCfg { hold: None, oi: None, toll: None, spread: None, fluct: Some(tight), engine: None, ifund: None, feed: None, twap: None } });
            let q0 = vamm_state(w, v).quote_asset_reserve.u128();
            tr.step(w, &Op::Eng { sender: t, funds: 0, m: EMsg::Close { vamm: v, limit: 0 } });
            if !whole && rng.chance(1, 3) { tr.step(w, &Op::Eng { sender: t, funds: 0, m: EMsg::Close { vamm: v, limit: 0 } }); }
            let q1 = vamm_state(w, v).quote_asset_reserve.u128();
            let (side, gap) = if q1 < q0 { (Side::Buy, q0 - q1) } else { (Side::Sell, q1 - q0) };
            let others: Vec<u32> = TRADERS.iter().cloned().filter(|x| *x != t).collect();
            for (num, den) in [(1u128, 2u128), (9, 10), (1, 1), (1, 50)] {
                let who = *rng.pick(&others);
                let notional = gap * num / den;
                if notional == 0 { continue; }
                let lev = if rng.chance(1, 2) { d } else { d * 2 };
                let op = mk_open(w, who, v, side.clone(), notional * d / lev + 1, lev, 0);
                tr.step(w, &op);
            }
            if whole { tr.step(w, &Op::Eng { sender: ID_OWNER, funds: 0, m: EMsg::UpdCfg { owner: None, ifund: None, fpool: None, init: None, maint: None, plr: Some(cfg.partial_liquidation_ratio.u128()), liqfee: None } }); }
        } else if take(p.w_zeroeq) {
            // a position whose equity (margin after funding + spot PnL) is negative is topped up to exactly zero, one
            // unit above or one below, and closed in the same block: the boundary between "pays out" and "bad debt"
            let ps = with_position(w);
            let mut cand: Vec<(u32, u32, u128)> = vec![];
            for (pv, pt) in ps.iter() {
                let mwf: Option<me::Position> = w.q(&w.engine, &me::QueryMsg::PositionWithFundingPayment { vamm: w.addr(*pv).to_string(), trader: w.addr(*pt).to_string() });
                if let (Some(m), Some(pn)) = (mwf, spot_pnl(w, *pv, *pt)) {
                    if pn.unrealized_pnl.negative && pn.unrealized_pnl.value.u128() > m.margin.u128() {
                        cand.push((*pv, *pt, pn.unrealized_pnl.value.u128() - m.margin.u128()));
                    }
                }
            }
            if cand.is_empty() {
                // make one: a leveraged long, then a larger short by someone else pushes the price under it
                let free: Vec<u32> = TRADERS.iter().cloned().filter(|x| w.position(v, *x).is_none()).collect();
                if free.len() < 2 { continue; }
                let q = vamm_state(w, v).quote_asset_reserve.u128();
                let init = eng_cfg(w).initial_margin_ratio.u128();
                let li = std::cmp::max(std::cmp::min(if init == 0 { 10 } else { d / init }, 10), 1);
                let lev = li * d;
                tr.step(w, &Op::Vamm { sender: ID_OWNER, v, m: VMsg::UpdCfg { hold: Some(0), oi: Some(0), toll: None, spread: None, fluct: Some(0), engine: None, ifund: None, feed: None, twap: None } });
                let na = q / 50; if na == 0 || na / li > 2_000_000u128 * d { continue; }
                let op = mk_open(w, free[0], v, Side::Buy, na * d / lev + 1, lev, 0); if !tr.step(w, &op) { continue; }
                let nb = q / 100 * (12 + 120 / li);
                let op = mk_open(w, free[1], v, Side::Sell, nb * d / lev + 1, lev, 0); if !tr.step(w, &op) { continue; }
                let mwf: Option<me::Position> = w.q(&w.engine, &me::QueryMsg::PositionWithFundingPayment { vamm: w.addr(v).to_string(), trader: w.addr(free[0]).to_string() });
                if let (Some(m), Some(pn)) = (mwf, spot_pnl(w, v, free[0])) {
                    if pn.unrealized_pnl.negative && pn.unrealized_pnl.value.u128() > m.margin.u128() {
                        cand.push((v, free[0], pn.unrealized_pnl.value.u128() - m.margin.u128()));
                    }
                }
                if cand.is_empty() { continue; }
            }
            let (pv, pt, short) = *rng.pick(&cand);
            let amt = match rng.below(4) { 0 => short + 1, 1 => short.saturating_sub(1).max(1), _ => short };
            tr.step(w, &Op::Eng { sender: pt, funds: if w.d.native { amt } else { 0 }, m: EMsg::Deposit { vamm: pv, amt } });
            let fees = w.position(pv, pt).map(|p| calc_fee(w, pv, p.notional.u128())).unwrap_or(0);
            tr.step(w, &Op::Eng { sender: pt, funds: if w.d.native { fees } else { 0 }, m: EMsg::Close { vamm: pv, limit: 0 } });
        } else if take(p.w_reduce) {
            // an opposite-side OpenPosition with a limit, sized around what the position is worth at spot and on the
            // TWAP, right after somebody else moved the price in the position's favour (the two valuations differ)
            let ps = with_position(w);
            if ps.is_empty() { continue; }
            let (pv, pt) = *rng.pick(&ps);
            let p0 = match w.position(pv, pt) { Some(p) if !p.size.value.is_zero() => p, _ => continue };
            let long = p0.direction == mv::Direction::AddToAmm;
            let others: Vec<u32> = TRADERS.iter().cloned().filter(|x| *x != pt).collect();
            let pusher = *rng.pick(&others);
            if rng.chance(1, 2) { tr.step(w, &Op::Block { dt: 1 + rng.below(600), dh: 1 }); }
            let q = vamm_state(w, pv).quote_asset_reserve.u128();
            let push = q / (3 + rng.below(12) as u128);
            if push > 0 && push < 2_000_000u128 * d {
                let op = mk_open(w, pusher, pv, if long { Side::Buy } else { Side::Sell }, push, d, 0); tr.step(w, &op);
            }
            if rng.chance(1, 2) { tr.step(w, &Op::Block { dt: 1 + rng.below(60), dh: 1 }); }
            let nt = |o: me::PnlCalcOption| -> Option<u128> {
                let r: Option<me::PositionUnrealizedPnlResponse> = w.q(&w.engine, &me::QueryMsg::UnrealizedPnl { vamm: w.addr(pv).to_string(), trader: w.addr(pt).to_string(), calc_option: o });
                r.map(|x| x.position_notional.u128())
            };
            if let (Some(sp), Some(tw)) = (nt(me::PnlCalcOption::SpotPrice), nt(me::PnlCalcOption::Twap)) {
                let (lo, hi) = (sp.min(tw), sp.max(tw));
                let n = match rng.below(7) { 0 => lo.saturating_sub(1).max(1), 1 => lo + 1, 2 => lo + (hi - lo) / 4, 3 => lo + (hi - lo) / 2, 4 => hi.saturating_sub(1).max(1), 5 => hi + 1, _ => lo / 2 + 1 };
                let side = if long { Side::Sell } else { Side::Buy };
                let dir = if long { mv::Direction::RemoveFromAmm } else { mv::Direction::AddToAmm };
                let qa: Option<Uint128> = w.q(&w.addr(pv), &mv::QueryMsg::InputAmount { direction: dir, amount: Uint128::new(n) });
                let limit = match qa { Some(qa) => match rng.below(4) { 0 => qa.u128().saturating_sub(1).max(1), 1 => qa.u128().max(1), 2 => qa.u128() + 1, _ => 0 }, None => 0 };
                let op = mk_open(w, pt, pv, side, n, d, limit);
                tr.step(w, &op);
            }
        } else if take(p.w_dust) {
            // a position of a few raw units, closed at once or after somebody moved the price against it: amounts
            // that round to nothing on one side of an exchange and not on the other
            let free: Vec<u32> = TRADERS.iter().cloned().filter(|x| w.position(v, *x).is_none()).collect();
            if free.is_empty() { continue; }
            let who = free[0];
            let side = if rng.chance(2, 3) { Side::Buy } else { Side::Sell };
            let dust = if rng.chance(2, 3) { 1 + rng.below(3) as u128 } else { 1 + rng.below(40) as u128 };
            let op = mk_open(w, who, v, side.clone(), dust, d, 0);
            if !tr.step(w, &op) { continue; }
            if rng.chance(1, 2) && free.len() > 1 {
                let q = vamm_state(w, v).quote_asset_reserve.u128();
                let push = q / (2 + rng.below(8) as u128);
                if push > 0 && push < 2_000_000u128 * d {
                    let op = mk_open(w, free[1], v, if side == Side::Buy { Side::Sell } else { Side::Buy }, push, d, 0); tr.step(w, &op);
                }
            }
            if rng.chance(1, 3) { tr.step(w, &Op::Block { dt: 1 + rng.below(60), dh: 1 }); }
            tr.step(w, &Op::Eng { sender: who, funds: 0, m: EMsg::Close { vamm: v, limit: 0 } });
        } else if take(p.w_drain) {
            drain_macro(tr, w, rng, v);
        } else if take(p.w_c16) {
            // within ONE block: a trader touches (or does not touch) a position, a liquidation happens on the
            // same vAMM, then the trader / the liquidator / a bystander act again
            let ps = with_position(w);
            if ps.len() < 2 { continue; }
            let (v, victim) = *rng.pick(&ps);
            let others: Vec<u32> = ps.iter().filter(|(vv, tt)| *vv == v && *tt != victim).map(|(_, tt)| *tt).collect();
            if others.is_empty() { continue; }
            let actor = *rng.pick(&others);
            tr.step(w, &Op::Block { dt: 10 + rng.below(100), dh: 1 });
            // before the liquidation: the actor reduces / increases / does nothing in this block
            match rng.below(5) {
                4 => {
                    // a ClosePosition the band splits: only the configured part of the position is closed
                    let mv_ = whole_close_move(w, v, actor).unwrap_or(0);
                    let tight = if mv_ >= 2 { mv_ / 2 } else { d / 1000 };
                    let plr = *rng.pick(&[d / 4, d / 2, d / 10, d * 9 / 10]);
                    tr.step(w, &Op::Eng { sender: ID_OWNER, funds: 0, m: EMsg::UpdCfg { owner: None, ifund: None, fpool: None, init: None, maint: None, plr: Some(plr), liqfee: None } });
                    tr.step(w, &Op::Vamm { sender: ID_OWNER, v, m: VMsg::UpdCfg { hold: None, oi: None, toll: None, spread: None, fluct: Some(tight), engine: None, ifund: None, feed: None, twap: None } });
                    tr.step(w, &Op::Eng { sender: actor, funds: 0, m: EMsg::Close { vamm: v, limit: 0 } });
                    tr.step(w, &Op::Vamm { sender: ID_OWNER, v, m: VMsg::UpdCfg { hold: None, oi: None, toll: None, spread: None, fluct: Some(0), engine: None, ifund: None, feed: None, twap: None } });
                }
                0 => { if let Some(p0) = w.position(v, actor) {
                          let side = if p0.direction == mv::Direction::AddToAmm { Side::Sell } else { Side::Buy };
                          let amt = (p0.notional.u128() / 10).max(1);
                          let op = mk_open(w, actor, v, side, amt, d, 0); tr.step(w, &op); } }
                1 => { if let Some(p0) = w.position(v, actor) {
                          let side = if p0.direction == mv::Direction::AddToAmm { Side::Buy } else { Side::Sell };
                          let op = mk_open(w, actor, v, side, d, d, 0); tr.step(w, &op); } }
                2 => { let amt = d / 3 + 1; tr.step(w, &Op::Eng { sender: actor, funds: if w.d.native { amt } else { 0 }, m: EMsg::Deposit { vamm: v, amt } }); }
                _ => {}
            }
            steer_liquidatable(tr, w, rng, v, victim);
            // after it, same block
            for who in [actor, victim, LIQUIDATOR] {
                match rng.below(3) {
                    0 => { tr.step(w, &Op::Eng { sender: who, funds: 0, m: EMsg::Close { vamm: v, limit: 0 } }); }
                    1 => { let op = mk_open(w, who, v, if rng.chance(1, 2) { Side::Buy } else { Side::Sell }, d, d, 0); tr.step(w, &op); }
                    _ => {}
                }
            }
            if rng.chance(1, 2) {
                tr.step(w, &Op::Block { dt: 5, dh: 1 });
                tr.step(w, &Op::Eng { sender: actor, funds: 0, m: EMsg::Close { vamm: v, limit: 0 } });
            }
        } else if take(p.w_malformed) {
            match rng.below(11) {
                // the fee pool's owner sends collected fees on: nothing, an unregistered token, a real amount
                10 => { let (tok, amt) = match rng.below(4) { 0 => (0u32, 0u128), 1 => (1, 1), 2 => (0, 1 + rng.below(1000) as u128), _ => (0, d * 1_000_000_000) };
                        tr.step(w, &Op::Fp { sender: if rng.chance(4, 5) { ID_OWNER } else { t }, m: FMsg::Send { tok, amt, to: *rng.pick(&[STRANGER, t, ID_IFUND]) } }); }
                0 => { tr.step(w, &Op::Eng { sender: t, funds: 0, m: EMsg::Open { vamm: v, side: Side::Buy, margin: 0, lev: d, limit: 0 } }); }
                1 => { tr.step(w, &Op::Eng { sender: t, funds: 0, m: EMsg::Open { vamm: v, side: Side::Sell, margin: d, lev: 0, limit: 0 } }); }
                2 => { tr.step(w, &Op::Eng { sender: t, funds: 0, m: EMsg::Open { vamm: STRANGER, side: Side::Buy, margin: d, lev: d, limit: 0 } }); }
                3 => { tr.step(w, &Op::Eng { sender: STRANGER, funds: 0, m: EMsg::Close { vamm: v, limit: 0 } }); }
                4 => { // a non-owner tries every kind of configuration field, one at a time
                       let m = match rng.below(5) {
                           0 => EMsg::UpdCfg { owner: Some(STRANGER), ifund: None, fpool: None, init: None, maint: None, plr: None, liqfee: None },
                           1 => EMsg::UpdCfg { owner: None, ifund: None, fpool: Some(STRANGER), init: None, maint: None, plr: None, liqfee: None },
                           2 => EMsg::UpdCfg { owner: None, ifund: Some(STRANGER), fpool: None, init: None, maint: None, plr: None, liqfee: None },
                           3 => EMsg::UpdCfg { owner: None, ifund: None, fpool: None, init: None, maint: None, plr: None, liqfee: Some(d / 2) },
                           _ => EMsg::UpdCfg { owner: None, ifund: None, fpool: None, init: Some(d), maint: Some(d / 2), plr: None, liqfee: None } };
                       tr.step(w, &Op::Eng { sender: STRANGER, funds: 0, m }); }
                5 => { tr.step(w, &Op::Eng { sender: STRANGER, funds: 0, m: EMsg::SetPause(true) }); }
                6 => { let dir = if rng.chance(1, 2) { Dir::Add } else { Dir::Rem };
                       if rng.chance(1, 2) { tr.step(w, &Op::Vamm { sender: t, v, m: VMsg::SwapIn { dir, q: d, lim: 0, cgo: false } }); }
                       else { tr.step(w, &Op::Vamm { sender: t, v, m: VMsg::SwapOut { dir, b: d / 10 + 1, lim: 0 } }); } }
                7 => { let who = if rng.chance(1, 2) { ID_OWNER } else { t }; tr.step(w, &Op::If { sender: who, m: IMsg::Withdraw(d) }); }
                8 => { if w.d.native && rng.chance(1, 2) {
                           // collateral attached to calls that do not expect any: it may only end up with the engine
                           let f = 1 + rng.below(1000) as u128 + if rng.chance(1, 2) { d } else { 0 };
                           let m = match rng.below(5) { 0 => EMsg::PayFunding { vamm: v }, 1 => EMsg::Liq { vamm: v, trader: *rng.pick(&TRADERS), limit: 0 },
                                                        2 => EMsg::Withdraw { vamm: v, amt: d / 100 + 1 }, 3 => EMsg::Close { vamm: v, limit: 0 }, _ => EMsg::SetPause(false) };
                           let who = if matches!(m, EMsg::SetPause(_)) { ID_OWNER } else { t };
                           tr.step(w, &Op::Eng { sender: who, funds: f, m });
                       } else if w.d.native { let op = Op::Eng { sender: t, funds: d / 2, m: EMsg::Open { vamm: v, side: Side::Buy, margin: d, lev: d, limit: 0 } }; tr.step(w, &op); }
                       else { tr.step(w, &Op::Eng { sender: STRANGER, funds: 0, m: EMsg::Open { vamm: v, side: Side::Buy, margin: d, lev: d, limit: 0 } }); } }
                _ => { tr.step(w, &Op::Eng { sender: t, funds: 0, m: EMsg::Withdraw { vamm: v, amt: d * 1_000_000 } }); }
            }
        }
    }
}

/// family `engine`: general mixed histories
pub fn run(out: &mut dyn Write, seed: u64, thorough: bool, n_hist: usize, native: Option<bool>, real_feed: bool, profile: &str) {
    let mut rng = Rng::new(seed);
    let mut tr = Tracer { out, n: 0, observe_every_op: true };
    for h in 0..n_hist {
        let mut d = random_deploy(&mut rng, native, real_feed);
        if profile == "fluct" || profile == "pcf" {
            let u = unit(d.decimals);
            for v in d.vamms.iter_mut() { v.fluct = *rng.pick(&[u / 100, u / 50, u / 20, u / 10, u / 5]); }
        }
        if profile == "pcf" {
            for v in d.vamms.iter_mut() { v.fluct = 0; v.fperiod = *rng.pick(&[1000u64, 1800, 3600]); }
        }
        if profile == "caps" && rng.chance(1, 2) {
            // a further vAMM whose decimals differ from the engine's (fewer or more): `setup` offers every vAMM of
            // the deployment to the insurance fund's registry, which must turn this one down
            let other: u8 = match d.decimals { 6 => 9, 12 => 9, _ => if rng.chance(1, 2) { 6 } else { 12 } };
            let mut v = d.vamms[0].clone();
            v.decimals = other; v.toll = 0; v.spread = 0; v.fluct = 0;
            v.b = unit(other) * 100; v.q = v.b * 10;
            d.vamms.push(v);
        }
        let mut w = World::new(&d, &accounts());
        tr.begin(&w, &format!("engine seed={} h={}", seed, h));
        setup(&mut tr, &mut w, &mut rng);
        let len = if thorough { 40 + rng.below(60) as usize } else { 25 + rng.below(20) as usize };
        if profile == "fluct" || profile == "pcf" {
            let u = unit(w.d.decimals);
            let plr = *rng.pick(&[u / 4, u / 2, u / 10, u * 9 / 10, u / 3]);
            tr.step(&mut w, &Op::Eng { sender: ID_OWNER, funds: 0, m: EMsg::UpdCfg { owner: None, ifund: None, fpool: None, init: None, maint: None, plr: Some(plr), liqfee: None } });
            tr.step(&mut w, &Op::Block { dt: 10, dh: 1 });
        }
        if profile == "drain" { drain_macro(&mut tr, &mut w, &mut rng, ID_VAMM0); }
        history(&mut tr, &mut w, &mut rng, &Profile::named(profile, len));
        tr.end();
    }
}
