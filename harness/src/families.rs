//! Further scenario families: vAMM-level swaps (C01/C17/C18), price feed (C18), access-control
//! matrix (C09), pause/open/registered matrix and shutdown subsets (C14), twin native/cw20
//! deployments (C13), fault injection at every sub-message (C08).
use crate::engine::*;
use crate::fault;
use crate::rng::Rng;
use crate::world::*;
use cosmwasm_std::Uint128;
use margined_perp::margined_engine as me;
use margined_perp::margined_vamm as mv;
use std::io::Write;

const FAKE_ENGINE: u32 = 43;

fn none_cfg() -> VMsg {
    VMsg::UpdCfg { hold: None, oi: None, toll: None, spread: None, fluct: None, engine: None, ifund: None, feed: None, twap: None }
}

/// vAMM-only histories: a plain account plays the margin engine and swaps directly.
pub fn run_vamm(out: &mut dyn Write, seed: u64, thorough: bool, n_hist: usize) {
    let mut rng = Rng::new(seed);
    let mut tr = Tracer { out, n: 0, observe_every_op: true };
    let mut accts = accounts();
    accts.push(FAKE_ENGINE);
    for h in 0..n_hist {
        let rf = rng.chance(1, 4);
        let mut d = random_deploy(&mut rng, Some(false), rf);
        // reserves from one whole unit up to 2^100
        let u = unit(d.decimals);
        for v in d.vamms.iter_mut() {
            match rng.below(6) {
                0 => { v.q = u; v.b = u; }
                1 => { v.q = u + rng.below(1000) as u128; v.b = u * 1000 + rng.below(7) as u128; }
                2 => { v.q = (1u128 << 100) + rng.below(1 << 20) as u128; v.b = (1u128 << 90) + rng.below(1 << 20) as u128; }
                3 => { v.q = u * 3 + 1; v.b = u * 7 + 3; }
                _ => {}
            }
            if rng.chance(1, 2) { v.fluct = *rng.pick(&[u / 100, u / 20, u / 5]); }
        }
        let mut w = World::new(&d, &accts);
        tr.begin(&w, &format!("vamm seed={} h={}", seed, h));
        let bi = w.app.block_info();
        for i in 0..w.vamms.len() {
            let v = ID_VAMM0 + i as u32;
            tr.step(&mut w, &Op::Vamm { sender: ID_OWNER, v, m: VMsg::UpdCfg { hold: None, oi: None, toll: None, spread: None, fluct: None, engine: Some(FAKE_ENGINE), ifund: None, feed: None, twap: None } });
            tr.step(&mut w, &Op::Vamm { sender: ID_OWNER, v, m: VMsg::SetOpen(true) });
        }
        let spot = match w.d.vamms[0].q.checked_mul(u) { Some(x) => x / w.d.vamms[0].b, None => w.d.vamms[0].q / w.d.vamms[0].b * u };
        tr.step(&mut w, &Op::Feed { sender: ID_OWNER, m: PMsg::Append { price: spot, t: bi.time.seconds() } });
        let len = if thorough { 60 + rng.below(60) } else { 30 + rng.below(25) };
        for _ in 0..len {
            let v = ID_VAMM0 + rng.below(w.vamms.len() as u64) as u32;
            let st = vamm_state(&w, v);
            let (q, b) = (st.quote_asset_reserve.u128(), st.base_asset_reserve.u128());
            match rng.below(20) {
                0..=7 => {
                    let dir = if rng.chance(1, 2) { Dir::Add } else { Dir::Rem };
                    // amounts: fractions of the reserve, tiny amounts, amounts built to leave a remainder
                    let amt = match rng.below(7) { 0 => 1 + rng.below(10) as u128, 1 => q / (2 + rng.below(50) as u128) + 1, 2 => q / 1000 + rng.below(999) as u128,
                        3 => if dir == Dir::Rem { q.saturating_sub(rng.below(3) as u128) } else { q }, 4 => 0, 5 => u / 3 + 1, _ => q / 7 + 3 };
                    let mvdir = if dir == Dir::Add { mv::Direction::AddToAmm } else { mv::Direction::RemoveFromAmm };
                    let quoted: Option<Uint128> = w.q(&w.addr(v), &mv::QueryMsg::InputAmount { direction: mvdir, amount: Uint128::new(amt) });
                    let lim = match (rng.below(5), quoted) { (0, Some(x)) => x.u128(), (1, Some(x)) => x.u128() + 1, (2, Some(x)) => x.u128().saturating_sub(1), _ => 0 };
                    writeln!(tr.out, "A quoted={}", quoted.map(|x| x.to_string()).unwrap_or("err".into())).unwrap();
                    let cgo = rng.chance(1, 2);
                    let ok = tr.step(&mut w, &Op::Vamm { sender: FAKE_ENGINE, v, m: VMsg::SwapIn { dir: dir.clone(), q: amt, lim, cgo } });
                    // a swap refused under a limit is retried without it: the limit must have been the reason
                    if !ok && lim != 0 { writeln!(tr.out, "A quoted={}", quoted.map(|x| x.to_string()).unwrap_or("err".into())).unwrap(); tr.step(&mut w, &Op::Vamm { sender: FAKE_ENGINE, v, m: VMsg::SwapIn { dir, q: amt, lim: 0, cgo } }); }
                }
                8..=13 => {
                    let dir = if rng.chance(1, 2) { Dir::Add } else { Dir::Rem };
                    let amt = match rng.below(7) { 0 => 1 + rng.below(10) as u128, 1 => b / (2 + rng.below(50) as u128) + 1, 2 => b / 1000 + rng.below(999) as u128,
                        3 => if dir == Dir::Rem { b.saturating_sub(rng.below(3) as u128) } else { b }, 4 => 0, 5 => u / 3 + 1, _ => b / 7 + 3 };
                    let mvdir = if dir == Dir::Add { mv::Direction::AddToAmm } else { mv::Direction::RemoveFromAmm };
                    let quoted: Option<Uint128> = w.q(&w.addr(v), &mv::QueryMsg::OutputAmount { direction: mvdir, amount: Uint128::new(amt) });
                    let lim = match (rng.below(5), quoted) { (0, Some(x)) => x.u128(), (1, Some(x)) => x.u128() + 1, (2, Some(x)) => x.u128().saturating_sub(1), _ => 0 };
                    writeln!(tr.out, "A quoted={}", quoted.map(|x| x.to_string()).unwrap_or("err".into())).unwrap();
                    let ok = tr.step(&mut w, &Op::Vamm { sender: FAKE_ENGINE, v, m: VMsg::SwapOut { dir: dir.clone(), b: amt, lim } });
                    if !ok && lim != 0 { writeln!(tr.out, "A quoted={}", quoted.map(|x| x.to_string()).unwrap_or("err".into())).unwrap(); tr.step(&mut w, &Op::Vamm { sender: FAKE_ENGINE, v, m: VMsg::SwapOut { dir, b: amt, lim: 0 } }); }
                }
                14..=16 => {
                    let dt = match rng.below(6) { 0 => 0, 1 => 1, 2 => 5 + rng.below(60), 3 => 900, 4 => 3600 + rng.below(100), _ => rng.below(2000) };
                    let dh = match rng.below(4) { 0 => 0, _ => 1 + rng.below(3) };
                    tr.step(&mut w, &Op::Block { dt, dh });
                }
                17 => {
                    let st = vamm_state(&w, v);
                    let now = w.app.block_info().time.seconds();
                    if st.next_funding_time > now && rng.chance(1, 2) { tr.step(&mut w, &Op::Block { dt: st.next_funding_time - now, dh: 1 }); }
                    tr.step(&mut w, &Op::Vamm { sender: FAKE_ENGINE, v, m: VMsg::Settle });
                }
                18 => {
                    let x = *rng.pick(&[0u128, u / 100, u / 20, u / 5, u]);
                    tr.step(&mut w, &Op::Vamm { sender: ID_OWNER, v, m: VMsg::UpdCfg { hold: None, oi: None, toll: None, spread: None, fluct: Some(x), engine: None, ifund: None, feed: None, twap: Some(*rng.pick(&[60u64, 900, 3600, 86400])) } });
                }
                _ => {
                    let s = w.q::<Uint128>(&w.addr(v), &mv::QueryMsg::SpotPrice {}).map(|x| x.u128()).unwrap_or(u);
                    let now = w.app.block_info().time.seconds();
                    tr.step(&mut w, &Op::Feed { sender: ID_OWNER, m: PMsg::Append { price: s + rng.below(100) as u128, t: now } });
                }
            }
        }
        // one history in six goes on for well over a hundred trading blocks a few seconds apart, so that the TWAP
        // windows hold more than a hundred snapshots
        if rng.chance(1, 6) {
            let v = ID_VAMM0;
            tr.step(&mut w, &Op::Vamm { sender: ID_OWNER, v, m: VMsg::UpdCfg { hold: None, oi: None, toll: None, spread: None, fluct: Some(0), engine: None, ifund: None, feed: None, twap: Some(*rng.pick(&[900u64, 1800, 3600])) } });
            let n = 110 + rng.below(60);
            let flat = rng.chance(1, 4);
            for _ in 0..n {
                tr.step(&mut w, &Op::Block { dt: 3 + rng.below(6), dh: 1 });
                let q = vamm_state(&w, v).quote_asset_reserve.u128();
                let amt = if flat { 0 } else { q / (200 + rng.below(800) as u128) + 1 };
                let dir = if rng.chance(1, 2) { Dir::Add } else { Dir::Rem };
                let mvdir = if dir == Dir::Add { mv::Direction::AddToAmm } else { mv::Direction::RemoveFromAmm };
                let quoted: Option<Uint128> = w.q(&w.addr(v), &mv::QueryMsg::InputAmount { direction: mvdir, amount: Uint128::new(amt) });
                writeln!(tr.out, "A quoted={}", quoted.map(|x| x.to_string()).unwrap_or("err".into())).unwrap();
                tr.step(&mut w, &Op::Vamm { sender: FAKE_ENGINE, v, m: VMsg::SwapIn { dir, q: amt, lim: 0, cgo: false } });
            }
        }
        tr.end();
    }
}

/// price-feed histories on the repository's own feed: submissions with non-decreasing, non-future
/// timestamps (plus a separate malformed stream), queried through `Q` lines.
pub fn run_feed(out: &mut dyn Write, seed: u64, thorough: bool, n_hist: usize) {
    use margined_perp::margined_pricefeed as mp;
    let mut rng = Rng::new(seed);
    for h in 0..n_hist {
        let d = Deploy { native: false, decimals: 6, real_feed: true, init: 50_000, maint: 50_000, liqfee: 50_000,
            vamms: vec![VammInit { decimals: 6, q: 1_000_000_000, b: 100_000_000, fperiod: 3600, toll: 0, spread: 0, fluct: 0 }], t0: 1_600_000_000 + rng.below(1000), h0: 100 };
        let mut w = World::new(&d, &accounts());
        let malformed = rng.chance(1, 6);
        let mut tr = Tracer { out, n: 0, observe_every_op: false };
        tr.begin(&w, &format!("feed seed={} h={} malformed={}", seed, h, if malformed { 1 } else { 0 }));
        let len = if thorough { 30 + rng.below(40) } else { 12 + rng.below(20) };
        let mut last_t = 0u64;
        for _ in 0..len {
            let now = w.app.block_info().time.seconds();
            match rng.below(10) {
                0..=4 => {
                    let price = match rng.below(5) { 0 => 1, 1 => 1_000_000 + rng.below(1000) as u128, 2 => rng.u128_loglike() >> 40, 3 => 10_000_000, _ => 9_000_000 + rng.below(2_000_000) as u128 };
                    let t = if malformed { match rng.below(3) { 0 => now + 1 + rng.below(100), 1 => last_t.saturating_sub(rng.below(50)), _ => now } }
                            else { std::cmp::max(last_t, now.saturating_sub(rng.below(4) * rng.below(30))) };
                    let sender = if rng.chance(1, 15) { STRANGER } else { ID_OWNER };
                    if tr.step(&mut w, &Op::Feed { sender, m: PMsg::Append { price, t } }) { last_t = std::cmp::max(last_t, t); }
                }
                5 => {
                    let k = 1 + rng.below(3) as usize;
                    let mut ts = vec![];
                    let mut t = std::cmp::max(last_t, now.saturating_sub(20));
                    for _ in 0..k { ts.push(std::cmp::min(t, now)); t += rng.below(5); }
                    let prices: Vec<u128> = (0..k).map(|_| 9_000_000 + rng.below(2_000_000) as u128).collect();
                    let times = if rng.chance(1, 8) { ts[..k - 1].to_vec() } else { ts.clone() };
                    if tr.step(&mut w, &Op::Feed { sender: ID_OWNER, m: PMsg::AppendMulti { prices, times: times.clone() } }) {
                        if let Some(x) = times.last() { last_t = std::cmp::max(last_t, *x); }
                    }
                }
                6 | 7 => { let dt = match rng.below(4) { 0 => 0, 1 => 1 + rng.below(10), 2 => 60 + rng.below(600), _ => 3600 }; tr.step(&mut w, &Op::Block { dt, dh: 1 }); }
                _ => {}
            }
            // queries: latest, n rounds back (n around the number of rounds), twap over several intervals
            let key = ORACLE_KEY.to_string();
            let pd: Option<RawPriceData> = w.q(&w.feed, &mp::QueryMsg::GetPrice { key: key.clone() });
            let rounds = pd.as_ref().map(|p| p.round_id.u128()).unwrap_or(0);
            let mut line = String::from("Q");
            for n in [0u128, 1, rounds.saturating_sub(1), rounds, rounds + 1] {
                let r: Option<RawPriceData> = w.q(&w.feed, &mp::QueryMsg::GetPreviousPrice { key: key.clone(), num_round_back: Uint128::new(n) });
                line.push_str(&format!(" prev.{}={}", n, r.map(|p| format!("{}/{}/{}", p.round_id, p.price, p.timestamp.seconds())).unwrap_or("err".into())));
            }
            for iv in [0u64, 1, 10, 60, 900, 3600, 100_000] {
                let r: Option<Uint128> = w.q(&w.feed, &mp::QueryMsg::GetTwapPrice { key: key.clone(), interval: iv });
                line.push_str(&format!(" twap.{}={}", iv, r.map(|p| p.to_string()).unwrap_or("err".into())));
            }
            writeln!(tr.out, "{}", line).unwrap();
        }
        tr.end();
    }
}

/// C09: every privileged message x every kind of sender, before and after the role moved.
pub fn run_auth(out: &mut dyn Write, seed: u64, _thorough: bool, n_hist: usize) {
    let mut rng = Rng::new(seed);
    let senders: Vec<u32> = vec![ID_OWNER, NEWOWNER, STRANGER, TRADERS[0], TRADERS[1], TRADERS[2], TRADERS[3], ID_ENGINE, ID_IFUND, ID_VAMM0, ID_FEEPOOL, LIQUIDATOR];
    // who holds (pauser, engine owner, vAMM owner, fund owner, pool owner, feed owner) after the transfer step
    let modes: [(&str, [u32; 6]); 5] = [
        ("False", [ID_OWNER; 6]),
        ("True", [NEWOWNER; 6]),
        ("split", [NEWOWNER, TRADERS[3], TRADERS[2], LIQUIDATOR, STRANGER, TRADERS[1]]),
        ("pauser-only", [NEWOWNER, ID_OWNER, ID_OWNER, ID_OWNER, ID_OWNER, ID_OWNER]),
        ("owner-only", [ID_OWNER, NEWOWNER, ID_OWNER, ID_OWNER, ID_OWNER, ID_OWNER]),
    ];
    for h in 0..n_hist {
        for (transferred, roles) in modes.iter() {
            let real_feed = h % 2 == 0;
            let d = random_deploy(&mut rng, Some(h % 3 == 0), real_feed);
            let mut w = World::new(&d, &accounts());
            let mut tr = Tracer { out, n: 0, observe_every_op: true };
            tr.begin(&w, &format!("auth seed={} h={} transferred={}", seed, h, transferred));
            setup(&mut tr, &mut w, &mut rng);
            let u = unit(w.d.decimals);
            // a position, so that privileged calls act on a non-trivial state
            let op = mk_open(&w, TRADERS[0], ID_VAMM0, Side::Buy, u * 10, u * 2, 0);
            tr.step(&mut w, &op);
            // move the roles (pauser, engine owner, vAMM owner, fund owner, pool owner, feed owner)
            if roles[0] != ID_OWNER { tr.step(&mut w, &Op::Eng { sender: ID_OWNER, funds: 0, m: EMsg::UpdPauser(roles[0]) }); }
            if roles[1] != ID_OWNER { tr.step(&mut w, &Op::Eng { sender: ID_OWNER, funds: 0, m: EMsg::UpdCfg { owner: Some(roles[1]), ifund: None, fpool: None, init: None, maint: None, plr: None, liqfee: None } }); }
            if roles[2] != ID_OWNER { tr.step(&mut w, &Op::Vamm { sender: ID_OWNER, v: ID_VAMM0, m: VMsg::UpdOwner(roles[2]) }); }
            if roles[3] != ID_OWNER { tr.step(&mut w, &Op::If { sender: ID_OWNER, m: IMsg::UpdOwner(roles[3]) }); }
            if roles[4] != ID_OWNER { tr.step(&mut w, &Op::Fp { sender: ID_OWNER, m: FMsg::UpdOwner(roles[4]) }); }
            if roles[5] != ID_OWNER { tr.step(&mut w, &Op::Feed { sender: ID_OWNER, m: PMsg::UpdOwner(roles[5]) }); }
            let now = w.app.block_info().time.seconds();
            for s in senders.iter() {
                let s = *s;
                let ops: Vec<Op> = vec![
                    Op::Vamm { sender: s, v: ID_VAMM0, m: VMsg::SwapIn { dir: Dir::Add, q: u, lim: 0, cgo: true } },
                    Op::Vamm { sender: s, v: ID_VAMM0, m: VMsg::SwapOut { dir: Dir::Add, b: u / 10, lim: 0 } },
                    Op::Vamm { sender: s, v: ID_VAMM0, m: VMsg::Settle },
                    Op::Vamm { sender: s, v: ID_VAMM0, m: VMsg::UpdCfg { hold: Some(u * 1_000_000), oi: None, toll: None, spread: None, fluct: None, engine: None, ifund: None, feed: None, twap: None } },
                    Op::Vamm { sender: s, v: ID_VAMM0, m: VMsg::SetOpen(false) },
                    Op::Vamm { sender: s, v: ID_VAMM0, m: VMsg::SetOpen(true) },
                    Op::Vamm { sender: s, v: ID_VAMM0, m: VMsg::UpdOwner(s) },
                    Op::Eng { sender: s, funds: 0, m: EMsg::UpdCfg { owner: None, ifund: None, fpool: None, init: None, maint: None, plr: Some(u / 4), liqfee: None } },
                    Op::Eng { sender: s, funds: 0, m: EMsg::SetPause(true) },
                    Op::Eng { sender: s, funds: 0, m: EMsg::SetPause(false) },
                    Op::Eng { sender: s, funds: 0, m: EMsg::AddWl(STRANGER) },
                    Op::Eng { sender: s, funds: 0, m: EMsg::RmWl(STRANGER) },
                    Op::Eng { sender: s, funds: 0, m: EMsg::UpdPauser(s) },
                    Op::If { sender: s, m: IMsg::Withdraw(1) },
                    Op::If { sender: s, m: IMsg::Rm(ID_VAMM0) },
                    Op::If { sender: s, m: IMsg::Add(ID_VAMM0) },
                    Op::If { sender: s, m: IMsg::UpdOwner(s) },
                    Op::Fp { sender: s, m: FMsg::Add(1) },
                    Op::Fp { sender: s, m: FMsg::Rm(1) },
                    Op::Fp { sender: s, m: FMsg::Send { tok: 0, amt: 1, to: STRANGER } },
                    Op::Fp { sender: s, m: FMsg::UpdOwner(s) },
                    Op::Feed { sender: s, m: PMsg::Append { price: u * 10, t: now } },
                    Op::Feed { sender: s, m: PMsg::UpdOwner(s) },
                    Op::If { sender: s, m: IMsg::Shutdown },
                ];
                for op in ops.iter() {
                    let ok = tr.step(&mut w, op);
                    // undo a successful role move / shutdown so the next sender meets the same state
                    if ok {
                        match op {
                            Op::Vamm { m: VMsg::UpdOwner(_), .. } => { tr.step(&mut w, &Op::Vamm { sender: s, v: ID_VAMM0, m: VMsg::UpdOwner(roles[2]) }); }
                            Op::Eng { m: EMsg::UpdPauser(_), .. } => { tr.step(&mut w, &Op::Eng { sender: s, funds: 0, m: EMsg::UpdPauser(roles[0]) }); }
                            Op::If { m: IMsg::UpdOwner(_), .. } => { tr.step(&mut w, &Op::If { sender: s, m: IMsg::UpdOwner(roles[3]) }); }
                            Op::Fp { m: FMsg::UpdOwner(_), .. } => { tr.step(&mut w, &Op::Fp { sender: s, m: FMsg::UpdOwner(roles[4]) }); }
                            Op::Feed { m: PMsg::UpdOwner(_), .. } => { tr.step(&mut w, &Op::Feed { sender: s, m: PMsg::UpdOwner(roles[5]) }); }
                            Op::If { m: IMsg::Shutdown, .. } => { tr.step(&mut w, &Op::Vamm { sender: roles[2], v: ID_VAMM0, m: VMsg::SetOpen(true) }); }
                            _ => {}
                        }
                    }
                }
            }
            tr.end();
        }
    }
    let _ = none_cfg();
}

/// C14: every combination of paused x open x registered, every engine operation; shutdown from
/// every subset of already-closed vAMMs.
pub fn run_c14(out: &mut dyn Write, seed: u64, _thorough: bool, n_hist: usize) {
    let mut rng = Rng::new(seed);
    for h in 0..n_hist {
        for combo in 0..8u32 {
            let (paused, closed, unreg) = (combo & 1 != 0, combo & 2 != 0, combo & 4 != 0);
            let d = random_deploy(&mut rng, Some(h % 2 == 1), false);
            let mut w = World::new(&d, &accounts());
            let mut tr = Tracer { out, n: 0, observe_every_op: true };
            tr.begin(&w, &format!("c14 seed={} h={} paused={} closed={} unreg={}", seed, h, paused, closed, unreg));
            setup(&mut tr, &mut w, &mut rng);
            let u = unit(w.d.decimals);
            for t in [TRADERS[0], TRADERS[1]] {
                let op = mk_open(&w, t, ID_VAMM0, if t == TRADERS[0] { Side::Buy } else { Side::Sell }, u * 10, u * 2, 0);
                tr.step(&mut w, &op);
            }
            tr.step(&mut w, &Op::Block { dt: 4000, dh: 1 });
            steer_liquidatable_cfg_only(&mut tr, &mut w, ID_VAMM0, TRADERS[1]);
            if paused { tr.step(&mut w, &Op::Eng { sender: ID_OWNER, funds: 0, m: EMsg::SetPause(true) }); }
            if closed { tr.step(&mut w, &Op::Vamm { sender: ID_OWNER, v: ID_VAMM0, m: VMsg::SetOpen(false) }); }
            if unreg { tr.step(&mut w, &Op::If { sender: ID_OWNER, m: IMsg::Rm(ID_VAMM0) }); }
            let t = TRADERS[0];
            let op = mk_open(&w, TRADERS[2], ID_VAMM0, Side::Buy, u, u, 0);
            tr.step(&mut w, &op);
            let op = mk_open(&w, t, ID_VAMM0, Side::Buy, u, u, 0);
            tr.step(&mut w, &op);
            let dep_funds = if w.d.native { u } else { 0 };
            tr.step(&mut w, &Op::Eng { sender: t, funds: dep_funds, m: EMsg::Deposit { vamm: ID_VAMM0, amt: u } });
            tr.step(&mut w, &Op::Eng { sender: t, funds: 0, m: EMsg::Withdraw { vamm: ID_VAMM0, amt: u / 10 } });
            // PayFunding and Liquidate must stay available under pause: when one of them fails while paused it is
            // retried with the pause lifted (and the pause put back); if the retry goes through, the pause was the reason
            for op in [Op::Eng { sender: STRANGER, funds: 0, m: EMsg::PayFunding { vamm: ID_VAMM0 } },
                       Op::Eng { sender: LIQUIDATOR, funds: 0, m: EMsg::Liq { vamm: ID_VAMM0, trader: TRADERS[1], limit: 0 } }] {
                let ok = tr.step(&mut w, &op);
                if !ok && paused {
                    tr.step(&mut w, &Op::Eng { sender: ID_OWNER, funds: 0, m: EMsg::SetPause(false) });
                    tr.step(&mut w, &op);
                    tr.step(&mut w, &Op::Eng { sender: ID_OWNER, funds: 0, m: EMsg::SetPause(true) });
                }
            }
            tr.step(&mut w, &Op::Eng { sender: t, funds: 0, m: EMsg::Close { vamm: ID_VAMM0, limit: 0 } });
            tr.end();
        }
        // shutdown from every subset of already-closed vAMMs (1..3 registered)
        let nv = 1 + (h % 3);
        for subset in 0..(1u32 << nv) {
            let mut d = random_deploy(&mut rng, Some(false), false);
            while d.vamms.len() < nv { let v = d.vamms[0].clone(); d.vamms.push(v); }
            d.vamms.truncate(nv);
            let mut w = World::new(&d, &accounts());
            let mut tr = Tracer { out, n: 0, observe_every_op: true };
            tr.begin(&w, &format!("c14-shutdown seed={} h={} n={} closed_subset={}", seed, h, nv, subset));
            setup(&mut tr, &mut w, &mut rng);
            for i in 0..nv { if subset & (1 << i) != 0 { tr.step(&mut w, &Op::Vamm { sender: ID_OWNER, v: ID_VAMM0 + i as u32, m: VMsg::SetOpen(false) }); } }
            tr.step(&mut w, &Op::If { sender: STRANGER, m: IMsg::Shutdown });
            tr.step(&mut w, &Op::If { sender: ID_OWNER, m: IMsg::Shutdown });
            tr.step(&mut w, &Op::If { sender: ID_OWNER, m: IMsg::Shutdown });
            tr.end();
        }
    }
}

fn steer_liquidatable_cfg_only(tr: &mut Tracer, w: &mut World, v: u32, t: u32) {
    let d = unit(w.d.decimals);
    if let Some(mr) = margin_ratio(w, v, t) {
        let target = if mr.negative { d / 20 } else { std::cmp::min(d, mr.value.u128() + d / 50) };
        let cfg = eng_cfg(w);
        if target > cfg.initial_margin_ratio.u128() {
            tr.step(w, &Op::Eng { sender: ID_OWNER, funds: 0, m: EMsg::UpdCfg { owner: None, ifund: None, fpool: None, init: Some(target), maint: None, plr: None, liqfee: None } });
        }
        tr.step(w, &Op::Eng { sender: ID_OWNER, funds: 0, m: EMsg::UpdCfg { owner: None, ifund: None, fpool: None, init: None, maint: Some(target), plr: None, liqfee: None } });
    }
}

/// C08: every fault position of every engine operation of a history (cw20 deployments: every
/// sub-message goes through a wrapped contract).
pub fn run_faults(out: &mut dyn Write, seed: u64, thorough: bool, n_hist: usize) {
    let mut rng = Rng::new(seed);
    for h in 0..n_hist {
        let d = random_deploy(&mut rng, Some(false), false);
        let mut w = World::new(&d, &accounts());
        let mut tr = Tracer { out, n: 0, observe_every_op: true };
        tr.begin(&w, &format!("faults seed={} h={}", seed, h));
        setup(&mut tr, &mut w, &mut rng);
        let len = if thorough { 40 } else { 22 };
        // generate the history op by op; before committing each engine op, try it with a fault at
        // every sub-message index (each attempt must fail and change nothing), then run it clean
        let mut script: Vec<Op> = vec![];
        {
            // a scripted, liquidation-rich skeleton followed by random operations
            let u = unit(w.d.decimals);
            script.push(mk_open(&w, TRADERS[0], ID_VAMM0, Side::Buy, u * 20, u * 3, 0));
            script.push(Op::Eng { sender: TRADERS[1], funds: 0, m: EMsg::Open { vamm: ID_VAMM0, side: Side::Sell, margin: u * 15, lev: u * 2, limit: 0 } });
        }
        for op in script.iter() { fault_sweep(&mut tr, &mut w, op); }
        for _ in 0..len {
            let mut buf: Vec<u8> = vec![];
            // draw one random operation by running the generator on a scratch tracer against a probe:
            // simpler: build the op directly
            let _ = &mut buf;
            let v = ID_VAMM0 + rng.below(w.vamms.len() as u64) as u32;
            let t = *rng.pick(&TRADERS);
            let u = unit(w.d.decimals);
            let op = match rng.below(12) {
                0..=3 => mk_open(&w, t, v, if rng.chance(1, 2) { Side::Buy } else { Side::Sell }, u * (1 + rng.below(40) as u128), u * (1 + rng.below(4) as u128), 0),
                4 | 5 => { let ps = with_position(&w); if ps.is_empty() { continue; } let (v, t) = *rng.pick(&ps); Op::Eng { sender: t, funds: 0, m: EMsg::Close { vamm: v, limit: 0 } } }
                6 => { let ps = with_position(&w); if ps.is_empty() { continue; } let (v, t) = *rng.pick(&ps); Op::Eng { sender: t, funds: 0, m: EMsg::Deposit { vamm: v, amt: u } } }
                7 => { let ps = with_position(&w); if ps.is_empty() { continue; } let (v, t) = *rng.pick(&ps); Op::Eng { sender: t, funds: 0, m: EMsg::Withdraw { vamm: v, amt: u / 7 + 1 } } }
                8 => { let st = vamm_state(&w, v); let now = w.app.block_info().time.seconds(); if st.next_funding_time > now { tr.step(&mut w, &Op::Block { dt: st.next_funding_time - now, dh: 1 }); }
                       Op::Eng { sender: STRANGER, funds: 0, m: EMsg::PayFunding { vamm: v } } }
                9 | 10 => { let ps = with_position(&w); if ps.is_empty() { continue; } let (v, t) = *rng.pick(&ps);
                       steer_liquidatable_cfg_only(&mut tr, &mut w, v, t);
                       let s: Option<Uint128> = w.q(&w.addr(v), &mv::QueryMsg::SpotPrice {});
                       if let Some(s) = s { let now = w.app.block_info().time.seconds(); tr.step(&mut w, &Op::Feed { sender: ID_OWNER, m: PMsg::Append { price: s.u128(), t: now } }); }
                       Op::Eng { sender: LIQUIDATOR, funds: 0, m: EMsg::Liq { vamm: v, trader: t, limit: 0 } } }
                _ => { tr.step(&mut w, &Op::Block { dt: rng.below(1000), dh: 1 }); continue; }
            };
            fault_sweep(&mut tr, &mut w, &op);
        }
        tr.end();
    }
}

fn fault_sweep(tr: &mut Tracer, w: &mut World, op: &Op) {
    // how many sub-messages does the clean run dispatch?  Probe with an unreachable fault index.
    let mut k = 0i64;
    loop {
        if k > 12 { break; }
        let ok = tr.step_f(w, op, k);
        if ok {
            // the fault index was beyond the message tree: the transaction ran clean
            return;
        }
        // failed: either the fault hit, or the operation fails anyway
        let _ = fault::counter();
        k += 1;
        if k > 12 { break; }
    }
    tr.step(w, op);
}

/// C13: twin deployments (native / cw20), same parameters, same history; each native call attaches
/// exactly what the cw20 deployment pulls from the caller.  Two HISTORY blocks per case; the
/// monitor pairs them by label.
pub fn run_twin(out: &mut dyn Write, seed: u64, thorough: bool, n_hist: usize) {
    let mut rng = Rng::new(seed);
    for h in 0..n_hist {
        let mut d = random_deploy(&mut rng, Some(false), false);
        d.decimals = 6;
        let u = unit(6);
        for v in d.vamms.iter_mut() { v.decimals = 6; v.q = v.q.max(u); v.b = v.b.max(u); }
        // keep ratios meaningful at 6 decimals
        d.init = d.init.min(u); d.maint = d.maint.min(d.init); d.liqfee = d.liqfee.min(u);
        let with_fees = rng.chance(1, 2);
        for v in d.vamms.iter_mut() {
            if with_fees { v.toll = *rng.pick(&[u / 1000, u / 100, u / 20]); v.spread = *rng.pick(&[0, u / 1000, u / 50]); } else { v.toll = 0; v.spread = 0; }
            v.toll = v.toll.min(u); v.spread = v.spread.min(u); v.fluct = v.fluct.min(u);
        }
        let mut dn = d.clone();
        dn.native = true;
        let mut wc = World::new(&d, &accounts());
        let mut wn = World::new(&dn, &accounts());
        let mut bufc: Vec<u8> = vec![];
        let mut bufn: Vec<u8> = vec![];
        {
            let mut trc = Tracer { out: &mut bufc, n: 0, observe_every_op: true };
            let mut trn = Tracer { out: &mut bufn, n: 0, observe_every_op: true };
            trc.begin(&wc, &format!("twin-cw20 seed={} h={} fees={}", seed, h, with_fees));
            trn.begin(&wn, &format!("twin-native seed={} h={} fees={}", seed, h, with_fees));
            let mut r1 = rng.clone();
            let mut r2 = rng.clone();
            setup(&mut trc, &mut wc, &mut r1);
            setup(&mut trn, &mut wn, &mut r2);
            rng = r1;
            let len = if thorough { 50 } else { 28 };
            let mut pending_band_reset: Option<u32> = None;
            for _ in 0..len {
                let v = ID_VAMM0 + rng.below(wc.vamms.len() as u64) as u32;
                let t = *rng.pick(&TRADERS);
                let amt = u * (1 + rng.below(60) as u128) + rng.below(1000) as u128;
                let mut lev = u * (1 + rng.below(4) as u128);
                // mostly a leverage the current initial margin ratio admits
                let imr = eng_cfg(&wc).initial_margin_ratio.u128();
                if imr > 0 && rng.chance(9, 10) { lev = lev.min(u * u / imr).max(1); }
                let kind = rng.below(16);
                // both deployments get the same message; the native one attaches what the cw20 one pulls
                let (opc, opn): (Op, Op) = match kind {
                    0..=6 => {
                        let mut side = if rng.chance(1, 2) { Side::Buy } else { Side::Sell };
                        let (mut v, mut t, mut amt) = (v, t, amt);
                        // a third of the opens are reversals built so that the re-opened remainder is small
                        // against the released equity (the refund covers the new margin)
                        let ps = with_position(&wc);
                        if kind >= 5 && !ps.is_empty() {
                            let (pv, pt) = *rng.pick(&ps);
                            if let (Some(p), Some(pn)) = (wc.position(pv, pt), spot_pnl(&wc, pv, pt)) {
                                v = pv; t = pt;
                                side = if p.direction == mv::Direction::AddToAmm { Side::Sell } else { Side::Buy };
                                // one in four: somebody else first pushes the price far in the position's favour at high
                                // leverage (little margin enters the vault), so that what the position is owed exceeds
                                // the vault; then the reversal is by exactly the position's worth (nothing re-opened)
                                let mut exact = false;
                                if rng.chance(1, 3) {
                                    let others: Vec<u32> = TRADERS.iter().cloned().filter(|x| *x != pt && wc.position(pv, *x).is_none()).collect();
                                    if let Some(pusher) = others.first().cloned() {
                                        let q = vamm_state(&wc, pv).quote_asset_reserve.u128();
                                        // (the margin requirement is lowered first so that the push needs little margin)
                                        for o in [Op::Vamm { sender: ID_OWNER, v: pv, m: VMsg::UpdCfg { hold: Some(0), oi: Some(0), toll: None, spread: None, fluct: Some(0), engine: None, ifund: None, feed: None, twap: None } },
                                                  Op::Eng { sender: ID_OWNER, funds: 0, m: EMsg::UpdCfg { owner: None, ifund: None, fpool: None, init: None, maint: Some(u / 1000), plr: None, liqfee: None } },
                                                  Op::Eng { sender: ID_OWNER, funds: 0, m: EMsg::UpdCfg { owner: None, ifund: None, fpool: None, init: Some(u / 100), maint: None, plr: None, liqfee: None } }] {
                                            trc.step(&mut wc, &o); trn.step(&mut wn, &o);
                                        }
                                        let imr = eng_cfg(&wc).initial_margin_ratio.u128();
                                        let pl = if imr == 0 { 10 * u } else { (u * u / imr).min(100 * u).max(u) };
                                        let n = q * (1 + rng.below(4) as u128);
                                        if n < 2_000_000_000u128 * u {
                                            let pside = if p.direction == mv::Direction::AddToAmm { Side::Buy } else { Side::Sell };
                                            let o1 = mk_open(&wc, pusher, pv, pside.clone(), n * u / pl + 1, pl, 0);
                                            let o2 = mk_open(&wn, pusher, pv, pside, n * u / pl + 1, pl, 0);
                                            trc.step(&mut wc, &o1); trn.step(&mut wn, &o2);
                                            exact = true;
                                        }
                                    }
                                }
                                let pn = if exact { match spot_pnl(&wc, pv, pt) { Some(x) => x, None => continue } } else { pn };
                                if exact { lev = u; }
                                let rest = if exact { 0 } else { match rng.below(4) { 0 => lev / u + 1, 1 => p.margin.u128() * lev / u / 4 + 1, 2 => p.margin.u128() * lev / u / 2 + 7, _ => p.margin.u128() * lev / u + rng.below(1000) as u128 } };
                                amt = if exact { pn.position_notional.u128() } else { (pn.position_notional.u128() + rest) * u / lev + 1 };
                            }
                        }
                        let (pull, detail) = open_funds_cw20_detail(&wc, v, t, &side, amt, lev);
                        if let Some((need, released, fees)) = detail {
                            writeln!(trn.out, "A twin_need={} twin_released={} twin_fees={}", need, released, fees).unwrap();
                        }
                        (Op::Eng { sender: t, funds: 0, m: EMsg::Open { vamm: v, side: side.clone(), margin: amt, lev, limit: 0 } },
                         Op::Eng { sender: t, funds: pull, m: EMsg::Open { vamm: v, side, margin: amt, lev, limit: 0 } })
                    }
                    7 | 8 => { let ps = with_position(&wc); if ps.is_empty() { continue; } let (v, t) = *rng.pick(&ps);
                        // a third of the closes are split by a tight price band (partial close): both twins get the band and
                        // a partial ratio first; the band is lifted again afterwards
                        if rng.chance(1, 3) {
                            let plr = *rng.pick(&[u / 10, u / 4, u / 2]);
                            let tight = *rng.pick(&[u / 1000, u / 200, u / 50]);
                            for o in [Op::Block { dt: 3, dh: 1 },
                                      Op::Eng { sender: ID_OWNER, funds: 0, m: EMsg::UpdCfg { owner: None, ifund: None, fpool: None, init: None, maint: None, plr: Some(plr), liqfee: None } },
                                      Op::Vamm { sender: ID_OWNER, v, m: VMsg::UpdCfg { hold: None, oi: None, toll: None, spread: None, fluct: Some(tight), engine: None, ifund: None, feed: None, twap: None } }] {
                                trc.step(&mut wc, &o); trn.step(&mut wn, &o);
                            }
                            pending_band_reset = Some(v);
                        }
                        // closing: cw20 pulls the fees from the trader
                        let fees = wc.position(v, t).map(|p| calc_fee(&wc, v, p.notional.u128())).unwrap_or(0);
                        (Op::Eng { sender: t, funds: 0, m: EMsg::Close { vamm: v, limit: 0 } }, Op::Eng { sender: t, funds: fees, m: EMsg::Close { vamm: v, limit: 0 } }) }
                    9 => { let ps = with_position(&wc); if ps.is_empty() { continue; } let (v, t) = *rng.pick(&ps);
                        (Op::Eng { sender: t, funds: 0, m: EMsg::Deposit { vamm: v, amt: u } }, Op::Eng { sender: t, funds: u, m: EMsg::Deposit { vamm: v, amt: u } }) }
                    10 => { let ps = with_position(&wc); if ps.is_empty() { continue; } let (v, t) = *rng.pick(&ps);
                        let o = Op::Eng { sender: t, funds: 0, m: EMsg::Withdraw { vamm: v, amt: u / 5 } }; (o.clone(), o) }
                    11 => { let o = Op::Block { dt: match rng.below(3) { 0 => 0, 1 => 100, _ => 3700 }, dh: 1 }; (o.clone(), o) }
                    12 => { let o = Op::Eng { sender: STRANGER, funds: 0, m: EMsg::PayFunding { vamm: v } }; (o.clone(), o) }
                    _ => { let ps = with_position(&wc); if ps.is_empty() { continue; } let (v, t) = *rng.pick(&ps);
                        // half of the liquidations run with a partial-liquidation ratio, so that both liquidation branches
                        // (and their different recipients) are compared across the twins
                        if rng.chance(1, 2) {
                            let plr = *rng.pick(&[0u128, u / 10, u / 4, u / 2, u * 9 / 10]);
                            let o = Op::Eng { sender: ID_OWNER, funds: 0, m: EMsg::UpdCfg { owner: None, ifund: None, fpool: None, init: None, maint: None, plr: Some(plr), liqfee: None } };
                            trc.step(&mut wc, &o); trn.step(&mut wn, &o);
                        }
                        let mut r1 = rng.clone(); let mut r2 = rng.clone();
                        steer_liquidatable(&mut trc, &mut wc, &mut r1, v, t);
                        steer_liquidatable(&mut trn, &mut wn, &mut r2, v, t);
                        rng = r1;
                        // most of the time the ratios go back to the deployment's afterwards, in a new block, so that the rest
                        // of the history is not spent on refused opens
                        if rng.chance(3, 4) {
                            for o in [Op::Block { dt: 7, dh: 1 },
                                      Op::Eng { sender: ID_OWNER, funds: 0, m: EMsg::UpdCfg { owner: None, ifund: None, fpool: None, init: None, maint: Some(d.maint), plr: None, liqfee: None } },
                                      Op::Eng { sender: ID_OWNER, funds: 0, m: EMsg::UpdCfg { owner: None, ifund: None, fpool: None, init: Some(d.init), maint: None, plr: None, liqfee: None } }] {
                                trc.step(&mut wc, &o); trn.step(&mut wn, &o);
                            }
                        }
                        continue; }
                };
                // the cw20 deployment runs first; what it actually pulled from the caller (the drop of the caller's
                // allowance to the engine) is what the native call attaches; when the cw20 call fails, the predicted amount
                let snd = match &opc { Op::Eng { sender, .. } => Some(*sender), _ => None };
                let a0 = snd.and_then(|t| wc.allowance(t));
                let okc = trc.step(&mut wc, &opc);
                let a1 = snd.and_then(|t| wc.allowance(t));
                let opn = match (okc, a0, a1, opn) {
                    (true, Some(x), Some(y), Op::Eng { sender, m, .. }) if x >= y => Op::Eng { sender, funds: x - y, m },
                    (_, _, _, o) => o,
                };
                trn.step(&mut wn, &opn);
                if let Some(bv) = pending_band_reset.take() {
                    let o = Op::Vamm { sender: ID_OWNER, v: bv, m: VMsg::UpdCfg { hold: None, oi: None, toll: None, spread: None, fluct: Some(0), engine: None, ifund: None, feed: None, twap: None } };
                    trc.step(&mut wc, &o); trn.step(&mut wn, &o);
                }
            }
            trc.end();
            trn.end();
        }
        out.write_all(&bufc).unwrap();
        out.write_all(&bufn).unwrap();
    }
}

/// C10: position keys are sha3(vamm || trader) without a separator.  An account whose address is a
/// suffix of another trader's, naming a forged vAMM string, reaches that trader's storage key;
/// only the ownership guards of the handlers keep it out.
pub fn run_forge(out: &mut dyn Write, seed: u64, _thorough: bool, n_hist: usize) {
    let mut rng = Rng::new(seed);
    for h in 0..n_hist {
        let d = random_deploy(&mut rng, Some(h % 2 == 1), false);
        let mut accts = accounts();
        accts.push(ID_SUFFIX_ACCOUNT);
        let mut w = World::new(&d, &accts);
        let mut tr = Tracer { out, n: 0, observe_every_op: true };
        tr.begin(&w, &format!("forge seed={} h={}", seed, h));
        setup(&mut tr, &mut w, &mut rng);
        let u = unit(w.d.decimals);
        let rich = 1_000_000u128 * u;
        tr.step(&mut w, &Op::Tok { sender: ID_OWNER, m: TMsg::Mint { to: ID_SUFFIX_ACCOUNT, amt: rich } });
        if !w.d.native { tr.step(&mut w, &Op::Tok { sender: ID_SUFFIX_ACCOUNT, m: TMsg::Allow(rich * 10) }); }
        let op = mk_open(&w, TRADERS[0], ID_VAMM0, if rng.chance(1, 2) { Side::Buy } else { Side::Sell }, u * (5 + rng.below(50) as u128), u * 2, 0);
        tr.step(&mut w, &op);
        tr.step(&mut w, &Op::Block { dt: 10, dh: 1 });
        let amt = u * (1 + rng.below(30) as u128);
        let funds = if w.d.native { amt } else { 0 };
        // what the holder of the real position could withdraw (the forged call asks for a part of it)
        let fc: Option<margined_common::integer::Integer> = w.q(&w.engine, &me::QueryMsg::FreeCollateral { vamm: w.addr(ID_VAMM0).to_string(), trader: w.addr(TRADERS[0]).to_string() });
        let wamt = match fc { Some(f) if !f.negative && f.value.u128() > 1 => std::cmp::max(1, f.value.u128() / (2 + rng.below(4) as u128)), _ => 1 };
        // every position-touching entry point, with the forged vAMM string and with the real one
        for vamm in [ID_FORGED_VAMM, ID_VAMM0] {
            tr.step(&mut w, &Op::Eng { sender: ID_SUFFIX_ACCOUNT, funds, m: EMsg::Deposit { vamm, amt } });
            tr.step(&mut w, &Op::Eng { sender: ID_SUFFIX_ACCOUNT, funds: 0, m: EMsg::Withdraw { vamm, amt: wamt } });
            tr.step(&mut w, &Op::Eng { sender: ID_SUFFIX_ACCOUNT, funds: 0, m: EMsg::Close { vamm, limit: 0 } });
            let of = if w.d.native { u } else { 0 };
            tr.step(&mut w, &Op::Eng { sender: ID_SUFFIX_ACCOUNT, funds: of, m: EMsg::Open { vamm, side: Side::Buy, margin: u, lev: u, limit: 0 } });
            tr.step(&mut w, &Op::Eng { sender: ID_SUFFIX_ACCOUNT, funds: 0, m: EMsg::Liq { vamm, trader: ID_SUFFIX_ACCOUNT, limit: 0 } });
        }
        tr.end();
    }
}
