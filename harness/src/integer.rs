//! C19: direct calls of margined_common::integer::Integer on a boundary grid, random operands
//! and a string stream.  One trace line per call:  `I <op> <args> => ok <result> | err`.
use crate::rng::Rng;
use cosmwasm_std::Uint128;
use margined_common::integer::Integer;
use std::io::Write;
use std::panic::{catch_unwind, AssertUnwindSafe};
use std::str::FromStr;

fn mk(v: u128, neg: bool) -> Integer {
    Integer { value: Uint128::new(v), negative: neg }
}
fn enc(i: &Integer) -> String {
    format!("{} {}", i.value.u128(), if i.negative { 1 } else { 0 })
}
fn hex(s: &str) -> String {
    if s.is_empty() { return "-".to_string(); }
    s.bytes().map(|b| format!("{:02x}", b)).collect()
}

fn guard<T>(f: impl FnOnce() -> Option<T>) -> Option<T> {
    match catch_unwind(AssertUnwindSafe(f)) {
        Ok(r) => r,
        Err(_) => None,
    }
}

fn res_int(r: Option<Integer>) -> String {
    match r { Some(i) => format!("ok {}", enc(&i)), None => "err".to_string() }
}
fn res_bool(r: Option<bool>) -> String {
    match r { Some(b) => format!("ok {}", if b { 1 } else { 0 }), None => "err".to_string() }
}

pub fn binary(out: &mut dyn Write, a: Integer, b: Integer) -> Vec<Integer> {
    let mut results = vec![];
    let mut emit = |op: &str, r: Option<Integer>| {
        writeln!(out, "I {} {} {} => {}", op, enc(&a), enc(&b), res_int(r)).unwrap();
        if let Some(i) = r { results.push(i) }
    };
    emit("add", guard(|| Some(a + b)));
    emit("sub", guard(|| Some(a - b)));
    emit("mul", guard(|| Some(a * b)));
    emit("div", guard(|| Some(a / b)));
    emit("cadd", guard(|| a.checked_add(b).ok()));
    emit("csub", guard(|| a.checked_sub(b).ok()));
    emit("cmul", guard(|| a.checked_mul(b).ok()));
    emit("cdiv", guard(|| a.checked_div(b).ok()));
    // assign forms
    emit("adda", guard(|| { let mut x = a; x += b; Some(x) }));
    emit("suba", guard(|| { let mut x = a; x -= b; Some(x) }));
    emit("mula", guard(|| { let mut x = a; x *= b; Some(x) }));
    emit("diva", guard(|| { let mut x = a; x /= b; Some(x) }));
    // checked and unchecked forms agree (the type's own ==) whenever the checked form succeeds
    let mut agree = |op: &str, r: Option<bool>| {
        writeln!(out, "I {} {} {} => {}", op, enc(&a), enc(&b), res_bool(r)).unwrap();
    };
    agree("agree_add", guard(|| a.checked_add(b).ok()).and_then(|c| guard(|| Some(c == a + b))));
    agree("agree_sub", guard(|| a.checked_sub(b).ok()).and_then(|c| guard(|| Some(c == a - b))));
    agree("agree_mul", guard(|| a.checked_mul(b).ok()).and_then(|c| guard(|| Some(c == a * b))));
    agree("agree_div", guard(|| a.checked_div(b).ok()).and_then(|c| guard(|| Some(c == a / b))));
    cmp(out, a, b);
    results
}

pub fn cmp(out: &mut dyn Write, a: Integer, b: Integer) {
    let mut emit = |op: &str, r: Option<bool>| {
        writeln!(out, "I {} {} {} => {}", op, enc(&a), enc(&b), res_bool(r)).unwrap();
    };
    emit("eq", guard(|| Some(a == b)));
    emit("lt", guard(|| Some(a < b)));
    emit("gt", guard(|| Some(a > b)));
    emit("le", guard(|| Some(a <= b)));
    emit("ge", guard(|| Some(a >= b)));
    emit("cmplt", guard(|| Some(a.cmp(&b) == std::cmp::Ordering::Less)));
    emit("cmpeq", guard(|| Some(a.cmp(&b) == std::cmp::Ordering::Equal)));
}

pub fn unary(out: &mut dyn Write, a: Integer) {
    writeln!(out, "I neg {} => {}", enc(&a), res_int(guard(|| Some(a.invert_sign())))).unwrap();
    writeln!(out, "I abs {} => {}", enc(&a), res_int(guard(|| Some(a.abs())))).unwrap();
    writeln!(out, "I isneg {} => {}", enc(&a), res_bool(guard(|| Some(a.is_negative())))).unwrap();
    writeln!(out, "I ispos {} => {}", enc(&a), res_bool(guard(|| Some(a.is_positive())))).unwrap();
    writeln!(out, "I iszero {} => {}", enc(&a), res_bool(guard(|| Some(a.is_zero())))).unwrap();
    let s = guard(|| Some(a.to_string()));
    match &s {
        Some(s) => writeln!(out, "I tostr {} => ok {}", enc(&a), hex(s)).unwrap(),
        None => writeln!(out, "I tostr {} => err", enc(&a)).unwrap(),
    }
    // print / parse round trip: parse(print a) == a  (the type's own ==)
    let rt = guard(|| {
        let s = a.to_string();
        Integer::from_str(&s).ok().map(|p| p == a)
    });
    writeln!(out, "I roundtrip {} => {}", enc(&a), res_bool(rt)).unwrap();
    // serde: what storage does to the value
    let sj = guard(|| {
        let j = serde_json::to_string(&a).ok()?;
        serde_json::from_str::<Integer>(&j).ok()
    });
    writeln!(out, "I serde {} => {}", enc(&a), res_int(sj)).unwrap();
}

pub fn from_str(out: &mut dyn Write, s: &str) {
    let r = guard(|| Integer::from_str(s).ok());
    writeln!(out, "I fromstr {} => {}", hex(s), res_int(r)).unwrap();
}

pub fn constructors(out: &mut dyn Write, v: u128) {
    writeln!(out, "I newpos {} => {}", v, res_int(guard(|| Some(Integer::new_positive(v))))).unwrap();
    writeln!(out, "I newneg {} => {}", v, res_int(guard(|| Some(Integer::new_negative(v))))).unwrap();
    if v <= i128::MAX as u128 {
        let x = v as i128;
        writeln!(out, "I fromi128 {} 0 => {}", v, res_int(guard(|| Some(Integer::from(x))))).unwrap();
        writeln!(out, "I fromi128 {} 1 => {}", v, res_int(guard(|| Some(Integer::from(-x))))).unwrap();
    }
}

pub const GRID: [u128; 12] = [
    0, 1, 2, 7, 10, (1u128 << 64) - 1, 1u128 << 64, (1u128 << 64) + 1,
    1u128 << 127, (1u128 << 127) + 1, u128::MAX - 1, u128::MAX,
];

pub fn run(out: &mut dyn Write, seed: u64, thorough: bool) {
    let mut rng = Rng::new(seed);
    // exhaustive boundary grid: every (sign, magnitude) pair, including raw negative zero
    let mut ops: Vec<Integer> = vec![];
    for &v in GRID.iter() {
        ops.push(mk(v, false));
        ops.push(mk(v, true));
    }
    let mut produced: Vec<Integer> = vec![];
    for &a in ops.iter() {
        unary(out, a);
        for &b in ops.iter() {
            produced.extend(binary(out, a, b));
        }
    }
    for &v in GRID.iter() { constructors(out, v); }
    // every value the operators produced is fed back through the predicates and printers:
    // this is how a zero result is checked to be `== 0`, not `< 0`, printing as "0".
    produced.sort_by_key(|i| (i.value.u128(), i.negative));
    produced.dedup();
    for &r in produced.iter() {
        unary(out, r);
        cmp(out, r, Integer::zero());
        cmp(out, Integer::zero(), r);
    }
    // random operands: log-uniform magnitudes, equal magnitudes with opposite signs, near-boundary
    let n = if thorough { 60000 } else { 1500 };
    for _ in 0..n {
        let a = mk(rng.u128_loglike(), rng.chance(1, 2));
        let b = match rng.below(6) {
            0 => mk(a.value.u128(), !a.negative),
            1 => mk(a.value.u128(), a.negative),
            2 => mk(u128::MAX - a.value.u128(), rng.chance(1, 2)),
            3 => mk(a.value.u128().wrapping_add(1), rng.chance(1, 2)),
            _ => mk(rng.u128_loglike(), rng.chance(1, 2)),
        };
        let rs = binary(out, a, b);
        unary(out, a);
        for r in rs {
            if r.value.is_zero() || rng.chance(1, 8) {
                unary(out, r);
                cmp(out, r, Integer::zero());
            }
        }
    }
    // string stream
    let fixed = [
        "", "0", "-0", "+0", "+5", "-5", "5", "007", "-007", "-", "+", "--1", "-+5", "+-5", "1e3",
        " 1", "1 ", "0x10", "340282366920938463463374607431768211455",
        "340282366920938463463374607431768211456", "-340282366920938463463374607431768211455",
        "-340282366920938463463374607431768211456", "99999999999999999999999999999999999999999",
        "a", "1a", "-a", "١",
    ];
    for s in fixed.iter() { from_str(out, s); }
    let alphabet = ['0', '1', '9', '-', '+', '5', ' ', 'a'];
    let m = if thorough { 20000 } else { 600 };
    for _ in 0..m {
        let len = rng.below(6) as usize;
        let s: String = (0..len).map(|_| *rng.pick(&alphabet)).collect();
        from_str(out, &s);
    }
    for _ in 0..m {
        let v = rng.u128_loglike();
        let s = format!("{}{}", if rng.chance(1, 2) { "-" } else { "" }, v);
        from_str(out, &s);
    }
}

fn unhex(h: &str) -> String {
    if h == "-" { return String::new(); }
    let b: Vec<u8> = (0..h.len() / 2).map(|i| u8::from_str_radix(&h[2 * i..2 * i + 2], 16).unwrap()).collect();
    String::from_utf8_lossy(&b).to_string()
}

/// re-executes recorded `I <op> <args> => ...` lines
pub fn replay(out: &mut dyn Write, lines: &[String]) {
    for l in lines {
        let t: Vec<&str> = l.split_whitespace().collect();
        if t.len() < 3 { continue; }
        let k = t.iter().position(|x| *x == "=>").unwrap_or(t.len());
        let a = &t[2..k];
        let sint = |i: usize| mk(a[i].parse().unwrap(), a[i + 1] == "1");
        match t[1] {
            "fromstr" => from_str(out, &unhex(a[0])),
            "newpos" | "newneg" | "fromi128" => constructors(out, a[0].parse().unwrap()),
            op if a.len() == 4 => {
                let _ = op;
                binary(out, sint(0), sint(2));
            }
            _ if a.len() == 2 => unary(out, sint(0)),
            _ => {}
        }
    }
}
